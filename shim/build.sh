#!/bin/sh
# build the syscall shim into ./build (gcc, clang as fallback)
HERE="$(cd "$(dirname "$0")/.." && pwd)"
mkdir -p "$HERE/build"
OUT="$HERE/build/fsshim.so"
if [ "$OUT" -nt "$HERE/shim/fsshim.c" ]; then exit 0; fi
TMP="$OUT.$$"
(gcc -shared -fPIC -O1 -D_LARGEFILE64_SOURCE -o "$TMP" "$HERE/shim/fsshim.c" -ldl 2>"$HERE/build/fsshim.log" || \
 clang -shared -fPIC -O1 -D_LARGEFILE64_SOURCE -o "$TMP" "$HERE/shim/fsshim.c" -ldl 2>>"$HERE/build/fsshim.log") && mv "$TMP" "$OUT"
