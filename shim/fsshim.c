/* fsshim: LD_PRELOAD observer / fault injector / schedule gate for file-system calls.
 *
 * Only calls whose path lies under $FSSHIM_ROOT (or whose fd was opened there) are events.
 *   - every event is appended to $FSSHIM_LOG as "seq pid M|R op detail\n" (M = mutating)
 *   - open("/__fsshim__/arm/<N>")      : SIGKILL this process *before* the N-th mutating event from now
 *   - open("/__fsshim__/armhalf/<N>")  : as arm, but if that event is a write, write the first half first
 *   - open("/__fsshim__/arm/0")        : count/log only        open("/__fsshim__/disarm") : stop counting
 *   - $FSSHIM_GATE="<reqfd>,<ackfd>"   : before every event write "pid op detail\n" to reqfd and block
 *                                         until one byte arrives on ackfd (the controller's grant);
 *                                         open("/__fsshim__/gate/on|off") switches gating
 * The shim does its own I/O with raw syscalls so it never re-enters itself.
 */
#define _GNU_SOURCE
#include <dlfcn.h>
#include <errno.h>
#include <fcntl.h>
#include <signal.h>
#include <stdarg.h>
#include <stdio.h>
#include <stdlib.h>
#include <string.h>
#include <sys/sendfile.h>
#include <sys/stat.h>
#include <sys/syscall.h>
#include <sys/types.h>
#include <sys/uio.h>
#include <unistd.h>
#include <dirent.h>

#define MAXFD 4096
static char root[1024];
static size_t rootlen = 0;
static int logfd = -1;
static int gate_req = -1, gate_ack = -1, gate_on = 0;
static int gate_level = 2;   /* 2: every event; 1: not read/pread/stat-like events */
static long armed = -1;      /* -1 idle; 0 count only; >0 kill before that mutating event */
static int arm_half = 0;
static long mcount = 0;      /* mutating events since arming */
static long seq = 0;
static unsigned char fdstate[MAXFD];   /* bit0 tracked, bit1 opened for writing, bit2 written */
static int inited = 0;

static void __attribute__((constructor)) shim_init(void) {
    if (inited) return;
    inited = 1;
    const char *r = getenv("FSSHIM_ROOT");
    if (r && *r) { strncpy(root, r, sizeof(root) - 1); rootlen = strlen(root); }
    const char *l = getenv("FSSHIM_LOG");
    if (l && *l) logfd = (int)syscall(SYS_openat, AT_FDCWD, l, O_WRONLY | O_CREAT | O_APPEND | O_CLOEXEC, 0644);
    const char *g = getenv("FSSHIM_GATE");
    if (g && *g) { if (sscanf(g, "%d,%d", &gate_req, &gate_ack) == 2) gate_on = 0; }
    const char *gl = getenv("FSSHIM_GATE_LEVEL");
    if (gl && *gl) gate_level = atoi(gl);
}

static int under_root(const char *p) {
    if (!inited) shim_init();
    if (!rootlen || !p) return 0;
    if (p[0] != '/') {
        /* relative path: resolve against cwd */
        char cwd[1024];
        long n = syscall(SYS_getcwd, cwd, sizeof(cwd));
        if (n <= 0) return 0;
        size_t cl = strlen(cwd);
        if (cl >= rootlen && strncmp(cwd, root, rootlen) == 0 && (cwd[rootlen] == '/' || cwd[rootlen] == 0)) return 1;
        return 0;
    }
    return strncmp(p, root, rootlen) == 0 && (p[rootlen] == '/' || p[rootlen] == 0);
}

static void emit(int mutating, const char *op, const char *detail, long size) {
    char buf[1400];
    int n = snprintf(buf, sizeof(buf), "%ld %d %c %s %s %ld\n", ++seq, (int)getpid(), mutating ? 'M' : 'R', op,
                     detail ? detail : "-", size);
    if (n > (int)sizeof(buf)) n = sizeof(buf);
    if (logfd >= 0) syscall(SYS_write, logfd, buf, n);
}

static void gate(const char *op, const char *detail) {
    if (!gate_on || gate_req < 0) return;
    if (gate_level < 2 && (strcmp(op, "read") == 0 || strcmp(op, "pread") == 0 || strcmp(op, "stat") == 0 ||
                           strcmp(op, "lstat") == 0 || strcmp(op, "access") == 0)) return;
    char buf[1400];
    int n = snprintf(buf, sizeof(buf), "%d %s %s\n", (int)getpid(), op, detail ? detail : "-");
    if (n > (int)sizeof(buf)) n = sizeof(buf);
    syscall(SYS_write, gate_req, buf, n);
    char c;
    long r;
    do { r = syscall(SYS_read, gate_ack, &c, 1); } while (r < 0 && errno == EINTR);
}

/* returns 1 if the caller should perform a half write and then die */
static int event(int mutating, const char *op, const char *detail, long size) {
    shim_init();
    gate(op, detail);
    if (armed >= 0 && mutating) {
        mcount++;
        if (armed > 0 && mcount == armed) {
            if (arm_half && (strcmp(op, "write") == 0 || strcmp(op, "pwrite") == 0) && size > 1) {
                emit(mutating, op, detail, -size);
                return 1;
            }
            { char kb[64]; snprintf(kb, sizeof(kb), "KILL-BEFORE-%s", op); emit(mutating, kb, detail, size); }
            syscall(SYS_kill, getpid(), SIGKILL);
            for (;;) syscall(SYS_pause);
        }
    }
    if (armed >= 0 || gate_on) emit(mutating, op, detail, size);
    return 0;
}

static void die_now(void) {
    syscall(SYS_kill, getpid(), SIGKILL);
    for (;;) syscall(SYS_pause);
}

static int magic(const char *path) {
    if (!path || strncmp(path, "/__fsshim__/", 12) != 0) return 0;
    shim_init();
    const char *p = path + 12;
    if (strncmp(p, "arm/", 4) == 0) { armed = atol(p + 4); arm_half = 0; mcount = 0; }
    else if (strncmp(p, "armhalf/", 8) == 0) { armed = atol(p + 8); arm_half = 1; mcount = 0; }
    else if (strcmp(p, "disarm") == 0) { armed = -1; }
    else if (strcmp(p, "gate/on") == 0) { gate_on = 1; }
    else if (strcmp(p, "gate/off") == 0) { gate_on = 0; }
    errno = ENOENT;
    return 1;
}

static void track(int fd, int flags) {
    if (fd >= 0 && fd < MAXFD) {
        int w = ((flags & O_ACCMODE) != O_RDONLY) || (flags & (O_CREAT | O_TRUNC));
        fdstate[fd] = 1 | (w ? 2 : 0);
    }
}

#define REAL(name) static __typeof__(name) *real_##name = NULL; if (!real_##name) real_##name = dlsym(RTLD_NEXT, #name)

static int do_open(const char *fname, int (*realf)(const char *, int, ...), const char *path, int flags, mode_t mode) {
    if (magic(path)) return -1;
    if (under_root(path)) {
        int mut = ((flags & O_ACCMODE) != O_RDONLY) || (flags & (O_CREAT | O_TRUNC));
        event(mut, mut ? "open-w" : "open-r", path, flags);
        int fd = realf(path, flags, mode);
        track(fd, flags);
        return fd;
    }
    int fd = realf(path, flags, mode);
    if (fd >= 0 && fd < MAXFD) fdstate[fd] = 0;
    return fd;
}

int open(const char *path, int flags, ...) {
    REAL(open);
    mode_t mode = 0;
    if (flags & (O_CREAT | O_TMPFILE)) { va_list ap; va_start(ap, flags); mode = va_arg(ap, mode_t); va_end(ap); }
    return do_open("open", real_open, path, flags, mode);
}

int open64(const char *path, int flags, ...) {
    REAL(open64);
    mode_t mode = 0;
    if (flags & (O_CREAT | O_TMPFILE)) { va_list ap; va_start(ap, flags); mode = va_arg(ap, mode_t); va_end(ap); }
    return do_open("open64", real_open64, path, flags, mode);
}

static int path_at(int dirfd, const char *path, char *out, size_t n) {
    /* best effort absolute form for *at calls relative to a tracked directory fd */
    if (!path) return 0;
    if (path[0] == '/' || dirfd == AT_FDCWD) { strncpy(out, path, n - 1); out[n - 1] = 0; return under_root(out); }
    char link[64], dir[1024];
    snprintf(link, sizeof(link), "/proc/self/fd/%d", dirfd);
    long r = syscall(SYS_readlinkat, AT_FDCWD, link, dir, sizeof(dir) - 1);
    if (r <= 0) return 0;
    dir[r] = 0;
    snprintf(out, n, "%s/%s", dir, path);
    return under_root(out);
}

int openat(int dirfd, const char *path, int flags, ...) {
    REAL(openat);
    mode_t mode = 0;
    if (flags & (O_CREAT | O_TMPFILE)) { va_list ap; va_start(ap, flags); mode = va_arg(ap, mode_t); va_end(ap); }
    if (magic(path)) return -1;
    char abs[1300];
    if (path_at(dirfd, path, abs, sizeof(abs))) {
        int mut = ((flags & O_ACCMODE) != O_RDONLY) || (flags & (O_CREAT | O_TRUNC));
        event(mut, mut ? "open-w" : "open-r", abs, flags);
        int fd = real_openat(dirfd, path, flags, mode);
        track(fd, flags);
        return fd;
    }
    int fd = real_openat(dirfd, path, flags, mode);
    if (fd >= 0 && fd < MAXFD) fdstate[fd] = 0;
    return fd;
}

int openat64(int dirfd, const char *path, int flags, ...) {
    REAL(openat64);
    mode_t mode = 0;
    if (flags & (O_CREAT | O_TMPFILE)) { va_list ap; va_start(ap, flags); mode = va_arg(ap, mode_t); va_end(ap); }
    if (magic(path)) return -1;
    char abs[1300];
    if (path_at(dirfd, path, abs, sizeof(abs))) {
        int mut = ((flags & O_ACCMODE) != O_RDONLY) || (flags & (O_CREAT | O_TRUNC));
        event(mut, mut ? "open-w" : "open-r", abs, flags);
        int fd = real_openat64(dirfd, path, flags, mode);
        track(fd, flags);
        return fd;
    }
    int fd = real_openat64(dirfd, path, flags, mode);
    if (fd >= 0 && fd < MAXFD) fdstate[fd] = 0;
    return fd;
}

int creat(const char *path, mode_t mode) {
    REAL(creat);
    if (under_root(path)) { event(1, "open-w", path, 0); int fd = real_creat(path, mode); track(fd, O_WRONLY | O_CREAT); return fd; }
    return real_creat(path, mode);
}

static int tracked(int fd) { return fd >= 0 && fd < MAXFD && (fdstate[fd] & 1); }

ssize_t write(int fd, const void *buf, size_t n) {
    REAL(write);
    if (tracked(fd)) {
        char d[32]; snprintf(d, sizeof(d), "fd%d", fd);
        if (event(1, "write", d, (long)n)) { real_write(fd, buf, n / 2); die_now(); }
        fdstate[fd] |= 4;
    }
    return real_write(fd, buf, n);
}

ssize_t pwrite(int fd, const void *buf, size_t n, off_t off) {
    REAL(pwrite);
    if (tracked(fd)) {
        char d[32]; snprintf(d, sizeof(d), "fd%d", fd);
        if (event(1, "pwrite", d, (long)n)) { real_pwrite(fd, buf, n / 2, off); die_now(); }
        fdstate[fd] |= 4;
    }
    return real_pwrite(fd, buf, n, off);
}

ssize_t pwrite64(int fd, const void *buf, size_t n, off64_t off) {
    REAL(pwrite64);
    if (tracked(fd)) {
        char d[32]; snprintf(d, sizeof(d), "fd%d", fd);
        if (event(1, "pwrite", d, (long)n)) { real_pwrite64(fd, buf, n / 2, off); die_now(); }
        fdstate[fd] |= 4;
    }
    return real_pwrite64(fd, buf, n, off);
}

ssize_t writev(int fd, const struct iovec *iov, int cnt) {
    REAL(writev);
    if (tracked(fd)) { char d[32]; snprintf(d, sizeof(d), "fd%d", fd); event(1, "writev", d, cnt); fdstate[fd] |= 4; }
    return real_writev(fd, iov, cnt);
}

/* in-kernel copies (shutil.copyfile uses them): mutate the output descriptor like a write */
ssize_t sendfile(int out, int in, off_t *off, size_t n) {
    REAL(sendfile);
    if (tracked(out)) {
        char d[32]; snprintf(d, sizeof(d), "fd%d", out);
        if (event(1, "sendfile", d, (long)n)) { real_sendfile(out, in, off, n / 2); die_now(); }
        fdstate[out] |= 4;
    }
    return real_sendfile(out, in, off, n);
}

ssize_t sendfile64(int out, int in, off64_t *off, size_t n) {
    REAL(sendfile64);
    if (tracked(out)) {
        char d[32]; snprintf(d, sizeof(d), "fd%d", out);
        if (event(1, "sendfile", d, (long)n)) { real_sendfile64(out, in, off, n / 2); die_now(); }
        fdstate[out] |= 4;
    }
    return real_sendfile64(out, in, off, n);
}

ssize_t copy_file_range(int in, off64_t *oin, int out, off64_t *oout, size_t n, unsigned int flags) {
    REAL(copy_file_range);
    if (tracked(out)) {
        char d[32]; snprintf(d, sizeof(d), "fd%d", out);
        if (event(1, "copy_file_range", d, (long)n)) { real_copy_file_range(in, oin, out, oout, n / 2, flags); die_now(); }
        fdstate[out] |= 4;
    }
    return real_copy_file_range(in, oin, out, oout, n, flags);
}

ssize_t read(int fd, void *buf, size_t n) {
    REAL(read);
    if (tracked(fd) && gate_on) { char d[32]; snprintf(d, sizeof(d), "fd%d", fd); event(0, "read", d, (long)n); }
    return real_read(fd, buf, n);
}

ssize_t pread(int fd, void *buf, size_t n, off_t off) {
    REAL(pread);
    if (tracked(fd) && gate_on) { char d[32]; snprintf(d, sizeof(d), "fd%d", fd); event(0, "pread", d, (long)n); }
    return real_pread(fd, buf, n, off);
}

ssize_t pread64(int fd, void *buf, size_t n, off64_t off) {
    REAL(pread64);
    if (tracked(fd) && gate_on) { char d[32]; snprintf(d, sizeof(d), "fd%d", fd); event(0, "pread", d, (long)n); }
    return real_pread64(fd, buf, n, off);
}

int close(int fd) {
    REAL(close);
    if (tracked(fd)) {
        int w = fdstate[fd] & 4;
        char d[32]; snprintf(d, sizeof(d), "fd%d", fd);
        if (w) event(1, "close-w", d, 0);
        fdstate[fd] = 0;
    }
    return real_close(fd);
}

int rename(const char *a, const char *b) {
    REAL(rename);
    if (under_root(a) || under_root(b)) { char d[2200]; snprintf(d, sizeof(d), "%s->%s", a, b); event(1, "rename", d, 0); }
    return real_rename(a, b);
}

int renameat(int fa, const char *a, int fb, const char *b) {
    REAL(renameat);
    char pa[1300], pb[1300];
    int ua = path_at(fa, a, pa, sizeof(pa)), ub = path_at(fb, b, pb, sizeof(pb));
    if (ua || ub) { char d[2700]; snprintf(d, sizeof(d), "%s->%s", pa, pb); event(1, "rename", d, 0); }
    return real_renameat(fa, a, fb, b);
}

int renameat2(int fa, const char *a, int fb, const char *b, unsigned int flags) {
    REAL(renameat2);
    char pa[1300], pb[1300];
    int ua = path_at(fa, a, pa, sizeof(pa)), ub = path_at(fb, b, pb, sizeof(pb));
    if (ua || ub) { char d[2700]; snprintf(d, sizeof(d), "%s->%s", pa, pb); event(1, "rename", d, flags); }
    return real_renameat2(fa, a, fb, b, flags);
}

int unlink(const char *p) {
    REAL(unlink);
    if (under_root(p)) event(1, "unlink", p, 0);
    return real_unlink(p);
}

int unlinkat(int dfd, const char *p, int flags) {
    REAL(unlinkat);
    char abs[1300];
    if (path_at(dfd, p, abs, sizeof(abs))) event(1, (flags & AT_REMOVEDIR) ? "rmdir" : "unlink", abs, 0);
    return real_unlinkat(dfd, p, flags);
}

int rmdir(const char *p) {
    REAL(rmdir);
    if (under_root(p)) event(1, "rmdir", p, 0);
    return real_rmdir(p);
}

int mkdir(const char *p, mode_t m) {
    REAL(mkdir);
    if (under_root(p)) event(1, "mkdir", p, 0);
    return real_mkdir(p, m);
}

int mkdirat(int dfd, const char *p, mode_t m) {
    REAL(mkdirat);
    char abs[1300];
    if (path_at(dfd, p, abs, sizeof(abs))) event(1, "mkdir", abs, 0);
    return real_mkdirat(dfd, p, m);
}

int ftruncate(int fd, off_t len) {
    REAL(ftruncate);
    if (tracked(fd)) { char d[32]; snprintf(d, sizeof(d), "fd%d", fd); event(1, "ftruncate", d, (long)len); }
    return real_ftruncate(fd, len);
}

int ftruncate64(int fd, off64_t len) {
    REAL(ftruncate64);
    if (tracked(fd)) { char d[32]; snprintf(d, sizeof(d), "fd%d", fd); event(1, "ftruncate", d, (long)len); }
    return real_ftruncate64(fd, len);
}

int fsync(int fd) {
    REAL(fsync);
    if (tracked(fd)) { char d[32]; snprintf(d, sizeof(d), "fd%d", fd); event(1, "fsync", d, 0); }
    return real_fsync(fd);
}

int fdatasync(int fd) {
    REAL(fdatasync);
    if (tracked(fd)) { char d[32]; snprintf(d, sizeof(d), "fd%d", fd); event(1, "fdatasync", d, 0); }
    return real_fdatasync(fd);
}

int chmod(const char *p, mode_t m) {
    REAL(chmod);
    if (under_root(p)) event(1, "chmod", p, 0);
    return real_chmod(p, m);
}

int link(const char *a, const char *b) {
    REAL(link);
    if (under_root(a) || under_root(b)) { char d[2200]; snprintf(d, sizeof(d), "%s->%s", a, b); event(1, "link", d, 0); }
    return real_link(a, b);
}

int symlink(const char *a, const char *b) {
    REAL(symlink);
    if (under_root(b)) event(1, "symlink", b, 0);
    return real_symlink(a, b);
}

/* read-side events (only meaningful for the schedule gate) */
DIR *opendir(const char *p) {
    REAL(opendir);
    if (under_root(p) && gate_on) event(0, "opendir", p, 0);
    return real_opendir(p);
}

int stat(const char *p, struct stat *st) {
    REAL(stat);
    if (gate_on && under_root(p)) event(0, "stat", p, 0);
    return real_stat(p, st);
}

int lstat(const char *p, struct stat *st) {
    REAL(lstat);
    if (gate_on && under_root(p)) event(0, "lstat", p, 0);
    return real_lstat(p, st);
}

int access(const char *p, int mode) {
    REAL(access);
    if (gate_on && under_root(p)) event(0, "access", p, 0);
    return real_access(p, mode);
}

#ifdef __USE_LARGEFILE64
int stat64(const char *p, struct stat64 *st) {
    REAL(stat64);
    if (gate_on && under_root(p)) event(0, "stat", p, 0);
    return real_stat64(p, st);
}

int lstat64(const char *p, struct stat64 *st) {
    REAL(lstat64);
    if (gate_on && under_root(p)) event(0, "lstat", p, 0);
    return real_lstat64(p, st);
}

int fstatat64(int dfd, const char *p, struct stat64 *st, int flags) {
    REAL(fstatat64);
    char abs[1300];
    if (gate_on && p && *p && path_at(dfd, p, abs, sizeof(abs))) event(0, "stat", abs, 0);
    return real_fstatat64(dfd, p, st, flags);
}
#endif

int fstatat(int dfd, const char *p, struct stat *st, int flags) {
    REAL(fstatat);
    char abs[1300];
    if (gate_on && p && *p && path_at(dfd, p, abs, sizeof(abs))) event(0, "stat", abs, 0);
    return real_fstatat(dfd, p, st, flags);
}

int statx(int dfd, const char *p, int flags, unsigned int mask, struct statx *stx) {
    REAL(statx);
    char abs[1300];
    if (gate_on && p && *p && path_at(dfd, p, abs, sizeof(abs))) event(0, "stat", abs, 0);
    return real_statx(dfd, p, flags, mask, stx);
}
