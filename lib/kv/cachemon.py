"""cachemon: cache-history engine.

Drives a klepto-decorated probe function through a generated history of calls and
management operations, snapshots everything observable at the wrapper's public boundary
before and after every step, and lets a set of independent monitors (C01 C02 C05 C06 C07
C15 C16 C18) judge each transition against a shadow model. Twin runs decide the
"as if it had not happened" clauses (C16, C18) and the clone clause (C20).

Monitors record; they never raise into klepto.
"""
import copy
import os
import random
import sys
import time

from kv import gen
from kv.common import cwd_or_gone, digest, import_klepto, Scratch
from kv.gen import enc, dec

klepto = import_klepto()
import klepto.safe  # noqa: E402
from klepto import archives as _ka  # noqa: E402

ALGOS = ['no', 'inf', 'lfu', 'lru', 'mru', 'rr']
BOUNDED = ('lfu', 'lru', 'mru', 'rr')
class _CustomBase(BaseException):
    pass


class _KeyErrorSub(KeyError):
    pass


EXC_TYPES = {'ValueError': ValueError, 'KeyError': KeyError, 'TypeError': TypeError,
             'IndexError': IndexError, 'RuntimeError': RuntimeError,
             'ZeroDivisionError': ZeroDivisionError,
             # the types klepto's own handlers catch, their subclasses, and exceptions outside Exception
             'KeyErrorSub': _KeyErrorSub, 'LookupError': LookupError, 'AttributeError': AttributeError,
             'OSError': OSError, 'StopIteration': StopIteration, 'KeyboardInterrupt': KeyboardInterrupt,
             'SystemExit': SystemExit, 'GeneratorExit': GeneratorExit, 'CustomBase': _CustomBase,
             'MemoryError': MemoryError, 'RecursionError': RecursionError}


class MonCache(_ka.cache):
    """klepto.archives.cache that reports every drop to a hook *before* performing it."""
    _kv_hook = None

    def _kv_note(self, kind, keys):
        h = self._kv_hook
        if h is not None:
            try:
                h(kind, keys, self)
            except Exception as e:  # the monitor must never disturb klepto
                MonCache._kv_errors.append(repr(e))

    _kv_errors = []

    def __delitem__(self, k):
        self._kv_note('del', [k] if dict.__contains__(self, k) else [])
        dict.__delitem__(self, k)

    def clear(self):
        self._kv_note('clear', list(dict.keys(self)))
        dict.clear(self)

    def pop(self, k, *d):
        self._kv_note('pop', [k] if dict.__contains__(self, k) else [])
        return dict.pop(self, k, *d)

    def popitem(self):
        ks = list(dict.keys(self))
        self._kv_note('popitem', ks[-1:] if ks else [])
        return dict.popitem(self)


# the recorded dir_archive name aliasing makes one key's entry answer for / overwrite another's (wrong value,
# recomputation, entry missing); it never makes a call or a management operation raise - that is something else
NOT_AN_ALIAS_SYMPTOM = ('call-raised', 'safe-not-degraded', 'management-op-raised', 'exception-not-propagated',
                        'safe-decorator-failed-after-unkeyable-call')


def effective_algo(cfg):
    a = cfg['algo']
    if a in BOUNDED:
        if cfg['maxsize'] == 0:
            return 'no'
        if cfg['maxsize'] is None:
            return 'inf'
    return a


def effective_maxsize(cfg):
    a = effective_algo(cfg)
    if a == 'no':
        return 0
    if a == 'inf':
        return None
    return cfg['maxsize']


def skey(k):
    """stable printable form of a cache key"""
    return srepr(k)


def srepr(v):
    try:
        return repr(v)
    except Exception as e:
        return '<unreprable %s: %s>' % (type(v).__name__, type(e).__name__)


def dir_fname(key):
    """harness-side replica of how dir_archive names the entry directory of a key
    (str(key) with '-' -> '_'; md5 of the repr for pickled keys) - used only to *classify*
    a witness as the known file-name aliasing mechanism, never to decide a verdict"""
    import hashlib
    from pickle import PROTO, STOP
    try:
        ispickle = key.startswith(PROTO) and key.endswith(STOP)
    except Exception:
        ispickle = False
    name = hashlib.md5(repr(key).encode()).hexdigest() if ispickle else str(key)
    return name.replace('-', '_')


class Runner(object):
    def __init__(self, case, root, moncache=True, skip=(), monitors=True, adopt=None):
        self.case = case
        self.cfg = cfg = case['cfg']
        self.root = root
        self.skip = set(skip)
        self.monitors = monitors
        self.viol = []
        self.cnt = {}
        self.armed_cause = None
        self.obs = []
        self.armed = []          # op indices whose armed exception actually fired
        self.backend = cfg['backend']
        if cfg.get('tol') is not None and self.backend.get('direct') and self.backend['kind'] == 'dir':
            # (cases recorded before the generator stopped pairing rounding with a directory archive used as the
            # cache: see gen_case - the dict snapshots cannot represent ==-equal keys that the directory names apart)
            self.backend = dict(self.backend)
            self.backend.pop('direct')
            cfg = self.cfg = dict(cfg, backend=self.backend)
        self.rmode = gen.result_mode(self.backend)
        self.probe = gen.Probe(case['sig'], self.rmode)
        self.algo = effective_algo(cfg)
        self.maxsize = effective_maxsize(cfg)
        self.in_call = False
        self.cur_key = None
        self.drop_events = []
        self.step_i = -1
        self.gen = 0             # generation (reopen count)
        self.arch_obj = gen.build_archive(klepto, self.backend, root)
        self.moncache = moncache and not self.backend.get('direct') and self.backend['kind'] != 'dict'
        self.op_offset = 0
        self.f = None
        self.construct_error = None
        if adopt is not None:
            # continue with an existing decorated function (the dill clone of C20)
            self.f = adopt
            self.probe = gen.Probe.adopt(case['sig'], self.rmode, adopt.__wrapped__)
            c = adopt.__cache__()
            a = getattr(c, 'archive', None)
            self.arch_obj = a if (a is not None and a is not c) else (c if self.backend.get('direct') else None)
        else:
            try:
                self._decorate()
            except Exception as e:
                self.construct_error = e
        # shadow
        self.tick = 0
        self.last_use = {}
        self.uses = {}
        self.tracked = set()     # resident keys whose whole residency was driven by calls
        self.retr = {}           # skey -> value: computed, not explicitly cleared
        self.ever_evicted = set()
        self.flags = set()
        self.seen = {}           # skey -> key, every key this history computed
        self.assigned = None     # archive object attached later through f.archive(...)
        self.c07_reported = set()

    # -- construction -------------------------------------------------------------------
    def _make_cache(self):
        b = self.backend
        if b.get('direct'):
            return self.arch_obj
        if b['kind'] == 'dict':
            return {}
        cls = MonCache if self.moncache else _ka.cache
        if b['kind'] == 'null':
            c = cls()
        else:
            c = cls(archive=self.arch_obj)
        if self.moncache:
            c._kv_hook = self._drop_hook
        return c

    def _decorate(self):
        cfg = self.cfg
        mod = klepto.safe if cfg['safe'] else klepto
        cls = getattr(mod, cfg['algo'] + '_cache')
        kw = {'cache': self._make_cache(), 'keymap': gen.build_keymap(klepto, cfg['keymap'])}
        if cfg.get('ignore') is not None:
            ign = dec(cfg['ignore'])
            # a single name or index may be given bare (ignore='x', ignore=0), as the docs allow
            kw['ignore'] = ign[0] if (cfg.get('ignore_scalar') and len(ign) == 1) else ign
        if cfg.get('tol') is not None:
            kw['tol'] = cfg['tol']
            kw['deep'] = bool(cfg.get('deep'))
        elif cfg.get('deep'):
            kw['deep'] = True          # deep rounding requested, no tolerance: nothing is rounded
        args = ()
        if cfg['algo'] in BOUNDED:
            kw['purge'] = bool(cfg['purge'])
            if cfg.get('maxsize_positional'):
                args = (cfg['maxsize'],)
            else:
                kw['maxsize'] = cfg['maxsize']
        self.deco = cls(*args, **kw)
        if cfg.get('bystander'):
            # another decorator of the same class, configured differently, is built before this one is applied
            # (a table of memoizers configured up front): each instance keeps its own settings
            okw = dict(kw, cache=_ka.cache(), keymap=klepto.keymaps.stringmap(flat=not cfg['keymap']['flat']))
            if cfg['algo'] in BOUNDED:
                okw['purge'] = not kw.get('purge', False)
                okw.pop('maxsize', None)
                self.bystander = cls(1000, **okw)
            else:
                self.bystander = cls(**okw)
            self.note('decorators_with_bystander')
            try:
                # ... and is applied to another function of the same signature that returns something else: each
                # decorator memoizes its own function in its own cache
                self.g = self.bystander(gen.Probe(self.case['sig'], result_mode=('str' if self.probe.result_mode != 'str' else 'tuple')).fn)
            except Exception:
                self.g = None
        if cfg.get('copied'):
            import copy as _copy
            self.deco = _copy.copy(self.deco)
            self.note('decorators_copied_before_use')
        self.f = self.deco(self.probe.fn)
        if getattr(self.f, '__wrapped__', None) is not self.probe.fn:
            self.wrapped_mismatch = True

    # -- observation helpers --------------------------------------------------------------
    def cache(self):
        return self.f.__cache__()

    def mem(self):
        return gen.contents(self.cache())

    def attached(self):
        return bool(self.f.archived())

    def arch(self):
        c = self.cache()
        a = getattr(c, 'archive', None)
        if a is None or a is c:
            return {}
        if a is self.arch_obj and gen.persistent(self.backend) and not getattr(self, 'swapped', False):
            # what the *store* holds, read through a handle of our own (a handle that serves a remembered copy,
            # or hides what another live instance wrote, must not be able to fool the monitors)
            h = gen.build_archive(klepto, self.backend, self.root)
            try:
                return gen.contents(h)
            finally:
                conn = getattr(h, '_conn', None)
                if conn is not None:
                    conn.close()
        return gen.contents(a)

    def arch_any(self):
        """contents of the archive object we built, attached or parked"""
        if self.backend.get('direct') or self.arch_obj is None:
            return {}
        return gen.contents(self.arch_obj)

    def info(self):
        i = self.f.info()
        return (i.hit, i.miss, i.load, i.maxsize, i.size)

    def note(self, c, n=1):
        self.cnt[c] = self.cnt.get(c, 0) + n

    def alias_partner(self, k):
        """another key seen in this history that dir_archive maps to the same directory"""
        if self.backend['kind'] != 'dir':
            return None
        try:
            fn = dir_fname(k)
        except Exception:
            return None
        for sk2, k2 in self.seen.items():
            if sk2 != skey(k) and dir_fname(k2) == fn:
                return k2
        return None

    def violation(self, prop, kind, msg, mech=(), keys=(), **kw):
        mech = list(mech)
        for k in (keys if kind not in NOT_AN_ALIAS_SYMPTOM else ()):
            p = self.alias_partner(k)
            if p is not None:
                mech.append('dir-fname-alias')
                kw['alias'] = [skey(k), skey(p)]
                break
        v = {'property': prop, 'kind': kind, 'msg': msg[:600], 'mech': list(mech),
             'step': self.step_i, 'case': self.case}
        v.update(kw)
        self.viol.append(v)

    # -- C07 drop hook (runs inside klepto's eviction, before the entry is dropped) ----------
    def _drop_hook(self, kind, keys, cache):
        if not self.in_call:
            return
        if not cache.archived():
            self.note('c07_drops_detached', len(keys))
            return
        a = cache.archive
        for k in keys:
            if skey(k) not in self.retr and skey(k) != self.cur_key:
                self.note('c07_drops_of_uncomputed_entries_skipped')
                continue
            self.note('c07_drop_hook_evals')
            try:
                val = dict.__getitem__(cache, k)
                present = k in a
                same = present and a[k] == val
            except Exception as e:
                present, same = False, False
            self.drop_events.append((kind, skey(k)))
            if not present:
                self.violation('C07', 'dropped-before-archived',
                               '%s of key %s while archived: key not in archive at drop time'
                               % (kind, skey(k)), keys=[k])
            elif not same:
                self.violation('C07', 'dropped-with-different-archived-value',
                               '%s of key %s while archived: archive holds a different value'
                               % (kind, skey(k)), keys=[k])

    # -- running ---------------------------------------------------------------------------
    def run(self):
        ops = self.case['ops']
        if self.construct_error is not None:
            self._construct_failed()
            return self
        self.note('c18_wrapped_checks')
        if getattr(self, 'wrapped_mismatch', False):
            self.violation('C18', 'wrapped-is-not-the-original', '__wrapped__ is not the decorated function')
        for i, op in enumerate(ops):
            if i in self.skip:
                self.obs.append(None)
                continue
            self.step_i = i
            random.seed(hash((self.case.get('seed', 0), i + self.op_offset)) & 0xffffffff)
            try:
                o = self.step(i, op)
            except Exception as e:  # harness-visible failure of a management op
                import traceback
                o = {'op': op[0], 'harness_exc': type(e).__name__ + ': ' + str(e)[:200]}
                self.violation('C01', 'management-op-raised',
                               '%s raised %s: %s' % (op[0], type(e).__name__, str(e)[:200]),
                               mech=self._mech_for_exc(e, op), tb=traceback.format_exc()[-1500:])
                self.obs.append(o)
                break
            self.obs.append(o)
            if o.get('abort'):
                break
        return self

    def _construct_failed(self):
        e = self.construct_error
        cfg = self.cfg
        mech = []
        self.violation('C05', 'construct-failed',
                       'decorating with %s_cache(maxsize=%r %s) failed: %s: %s'
                       % (cfg['algo'], cfg['maxsize'],
                          'positional' if cfg.get('maxsize_positional') else 'keyword',
                          type(e).__name__, str(e)[:200]), mech=mech)

    def _mech_for_exc(self, e, op):
        return []

    def snapshot(self):
        return {'mem': self.mem(), 'arch': self.arch(), 'att': self.attached(),
                'info': self.info(), 'nlog': len(self.probe.log)}

    def summarize(self, op, outcome, s1):
        return {'op': op[0], 'out': outcome,
                'mem': [skey(k) for k in s1['mem']],
                'arch': sorted(skey(k) for k in s1['arch']),
                'info': list(s1['info']), 'nlog': s1['nlog'], 'att': s1['att']}

    def keyof(self, args, kwds):
        """(ok, key) through the public f.key; ok False when the key cannot be built/hashed"""
        try:
            k = self.f.key(*args, **kwds)
            hash(k)
            self.seen[skey(k)] = k
            return True, k
        except Exception:
            return False, None

    def _keys_of(self, calls):
        out = []
        for a, k in calls:
            ok, key = self.keyof(dec(a), dec(k))
            if ok:
                out.append(key)
        return out

    def step(self, i, op):
        kind = op[0]
        if kind == 'call':
            return self.do_call(i, op)
        s0 = self.snapshot()
        outcome = None
        f = self.f
        if kind == 'dump':
            keys = self._keys_of(op[1]) if len(op) > 1 else []
            f.dump(*keys)
        elif kind == 'load':
            keys = self._keys_of(op[1]) if len(op) > 1 else []
            f.load(*keys)
            # loaded entries have no call history
            for k in (keys or list(self.mem().keys())):
                self.tracked.discard(skey(k))
        elif kind == 'clear':
            f.clear(keepstats=bool(op[1])) if op[1] is not None else f.clear()
            self.last_use.clear(); self.uses.clear(); self.tracked.clear()
        elif kind == 'archived':
            try:
                f.archived(bool(op[1]))
            except ValueError:
                outcome = ['exc', 'ValueError']
        elif kind == 'swaparchive':
            new = klepto._archives.dict_archive()
            f.archive(new)
            self.arch_obj = new
            self.swapped = True      # from now on the attached archive is an in-memory one, not the store
            self.assigned = new
            # the user replaced the archive: what only the old one held is no longer owed, what is resident still is
            # (when it leaves memory it has to reach the *new* archive)
            # (the non-caching decorator's memory is scratch space emptied after every call: nothing resident is owed)
            resident = set(skey(x) for x in self.mem()) if self.algo != 'no' else set()
            for r in list(self.retr):
                if r not in resident:
                    del self.retr[r]
        elif kind == 'overfill':
            # direct mutation of the in-memory cache with *correct* entries
            for a, k in op[1]:
                a, k = dec(a), dec(k)
                ok, key = self.keyof(a, k)
                if ok:
                    self.cache()[key] = self.probe.raw(*a, **k)
                    self.tracked.discard(skey(key))
        elif kind == 'archfill':
            if self.arch_obj is not None and not self.backend.get('direct'):
                for a, k in op[1]:
                    a, k = dec(a), dec(k)
                    ok, key = self.keyof(a, k)
                    if ok:
                        self.arch_obj[key] = self.probe.raw(*a, **k)
        elif kind in ('key', 'lookup'):
            return self.do_introspect(i, op, s0)
        elif kind == 'reopen':
            return self.do_reopen(i, op, s0)
        elif kind == 'switch':
            return self.do_switch(i, op, s0)
        else:
            raise ValueError('unknown op %r' % (op,))
        s1 = self.snapshot()
        if self.monitors:
            self.check_management(kind, op, s0, s1)
        return self.summarize(op, outcome, s1)

    # -- management ops ---------------------------------------------------------------------
    def check_attached_identity(self):
        """the archive the user attached with f.archive(X) must be the one in use whenever archiving is on"""
        if self.assigned is None:
            return
        self.note('attached_identity_checks')
        c = self.cache()
        if self.f.archived() and getattr(c, 'archive', None) is not self.assigned:
            for prop in ('C07', 'C02'):
                self.violation(prop, 'wrong-archive-attached',
                               'archiving is on but the attached archive is not the one set with f.archive(...): '
                               'evicted and dumped results go to a replaced archive')
            self.assigned = None

    def check_management(self, kind, op, s0, s1):
        self.note('mgmt_ops')
        self.check_attached_identity()
        if s1['nlog'] != s0['nlog']:
            self.violation('C02', 'management-op-evaluated',
                           '%s evaluated the wrapped function' % kind)
        h0, h1 = s0['info'], s1['info']
        self.note('c15_mgmt_checks')
        if kind == 'clear':
            keep = bool(op[1]) if op[1] is not None else False
            want = h0[:3] if keep else (0, 0, 0)
            if tuple(h1[:3]) != tuple(want):
                self.violation('C15', 'clear-counters',
                               'clear(keepstats=%r): counters %r -> %r, expected %r'
                               % (op[1], h0[:3], h1[:3], want))
            if self.algo != 'no' and len(s1['mem']) != 0:
                self.violation('C15', 'clear-left-entries',
                               'clear() left %d entries in memory' % len(s1['mem']))
        elif tuple(h1[:3]) != tuple(h0[:3]):
            self.violation('C15', 'management-op-moved-counters',
                           '%s moved the counters %r -> %r' % (kind, h0[:3], h1[:3]))
        if h1[4] != len(s1['mem']):
            self.violation('C15', 'size-mismatch', 'info().size=%r but %d entries resident'
                           % (h1[4], len(s1['mem'])))
        # retrievable set follows explicit operations
        allk = set(skey(k) for k in s1['mem']) | set(skey(k) for k in self.arch_any())
        for k in list(self.retr):
            if k not in allk:
                del self.retr[k]

    # -- calls -------------------------------------------------------------------------------
    def do_call(self, i, op):
        args, kwds = dec(op[1]), dec(op[2])
        raise_name = op[3] if len(op) > 3 else None
        f = self.f
        expect = self.probe.raw(*args, **kwds)
        ok, k = self.keyof(args, kwds)
        s0 = self.snapshot()
        mem0, arch0, att0 = s0['mem'], s0['arch'], s0['att']
        if not ok:
            cls = 'degraded'
        elif k in mem0:
            cls = 'hit'
        elif att0 and k in arch0:
            cls = 'load'
        else:
            cls = 'miss'
        if self.algo == 'no' and cls == 'hit':
            cls = 'load'   # the non-caching decorator counts every retrieved result as a load
        will_eval = cls in ('miss', 'degraded')
        exc_obj = None
        if raise_name and will_eval:
            exc_obj = EXC_TYPES[raise_name]('armed-%d' % i)
            if i % 2:
                # as if the function had written `raise X(...) from root`: the caller's handler may walk the chain
                exc_obj.__cause__ = LookupError('root cause of armed-%d' % i)
            self.armed_cause = exc_obj.__cause__
            self.probe.arm(exc_obj)
        if getattr(self, 'g', None) is not None and i % 3 == 0:
            try:
                self.g(*args, **kwds)      # the other function is asked first
                self.note('bystander_function_calls')
            except BaseException:
                pass
        self.drop_events = []
        self.in_call = True
        self.cur_key = skey(k) if (ok and cls == 'miss') else None
        raised = None
        result = None
        try:
            result = f(*args, **kwds)
        except BaseException as e:
            raised = e
        finally:
            self.in_call = False
            self.probe.disarm()
        s1 = self.snapshot()
        self.note('calls')
        self.note('calls_' + cls)
        outcome = ['ret', srepr(result)] if raised is None else ['exc', type(raised).__name__]
        o = self.summarize(op, outcome, s1)
        o['cls'] = cls
        o['k'] = skey(k) if ok else None
        if exc_obj is not None:
            self.armed.append(i)
            self.note('c16_armed_raises')
            if self.monitors:
                self.check_raise(i, exc_obj, raised, s0, s1, k, cls)
            return o
        if self.monitors:
            self.check_call(i, args, kwds, expect, k, cls, result, raised, s0, s1)
        if raised is not None or getattr(self, 'abort_case', False):
            o['abort'] = True   # state after an unexpected exception is not modelled further
        return o

    def check_raise(self, i, exc_obj, raised, s0, s1, k, cls):
        self.note('c16_raise_checks')
        if raised is not exc_obj:
            self.violation('C16', 'exception-not-propagated',
                           'function raised %r; caller saw %r' % (exc_obj, raised), keys=[k])
        elif self.armed_cause is not None and \
                (raised.__cause__ is not self.armed_cause or not raised.__suppress_context__):
            # (the armed object is the one that arrived, so its chain was rewritten on the way)
            self.violation('C16', 'exception-cause-rewritten', 'function raised %r from %r; the caller sees __cause__=%r'
                           % (exc_obj, 'LookupError(root cause)', raised.__cause__), keys=[k])
        if self.armed_cause is not None:
            self.note('c16_chained_raise_checks')
        n = s1['nlog'] - s0['nlog']
        if n != 1:
            self.violation('C16', 'raise-evaluations', 'raising call evaluated %d times' % n, keys=[k])
        if s1['mem'] != s0['mem']:
            self.violation('C16', 'raise-changed-memory',
                           'memory changed by a raising call: %r -> %r'
                           % (sorted(map(skey, s0['mem'])), sorted(map(skey, s1['mem']))), keys=[k])
        if s1['arch'] != s0['arch']:
            self.violation('C16', 'raise-changed-archive', 'archive changed by a raising call', keys=[k])
        if tuple(s1['info']) != tuple(s0['info']):
            self.violation('C16', 'raise-changed-stats',
                           'info() changed by a raising call: %r -> %r' % (s0['info'], s1['info']), keys=[k])
            self.violation('C15', 'failed-call-counted',
                           'a call that raised (not completed) moved the counters: %r -> %r'
                           % (s0['info'], s1['info']), keys=[k])

    def check_call(self, i, args, kwds, expect, k, cls, result, raised, s0, s1):
        cfg = self.cfg
        mem0, mem1, arch0, arch1 = s0['mem'], s1['mem'], s0['arch'], s1['arch']
        att0 = s0['att']
        sk = skey(k)
        # ---- C01 transparency
        self.note('c01_checks')
        if raised is not None:
            mech = []
            self.violation('C01', 'call-raised',
                           '%s call %s/%s raised %s: %s' % (cls, srepr(args), srepr(kwds),
                                                            type(raised).__name__, str(raised)[:160]),
                           mech=mech, exc=type(raised).__name__, keys=[k])
            if cls == 'degraded':
                self.violation('C16', 'safe-not-degraded',
                               'safe decorator raised %s for un-keyable arguments %s/%s'
                               % (type(raised).__name__, srepr(args), srepr(kwds)), mech=mech)
            elif self.cfg['safe'] and self.cnt.get('calls_degraded', 0) and isinstance(raised, TypeError):
                self.violation('C16', 'safe-decorator-failed-after-unkeyable-call',
                               'a later, ordinary call %s/%s raised %s: %s after an un-keyable call was made through '
                               'the safe decorator' % (srepr(args), srepr(kwds), type(raised).__name__, str(raised)[:100]))
            if cls != 'degraded':
                # the bound and the eviction policy are statements about the state after *every* call,
                # also one that klepto itself made fail
                self.check_bound(k, cls, mem0, mem1, att0)
                self.check_policy(k, cls, mem0, mem1, att0)
            return
        # typed keys promise 1 / 1.0 / True separate entries, so results are compared type-strictly there
        # (not for the sqlite fallback, which stores a bool result as an integer by design)
        strict = bool(cfg['keymap'].get('typed')) and self.backend['kind'] != 'sql'
        if not (result == expect) or (strict and srepr(result) != srepr(expect)):
            self.violation('C01', 'wrong-result',
                           '%s call %s/%s returned %s, function returns %s'
                           % (cls, srepr(args), srepr(kwds), srepr(result), srepr(expect)),
                           mech=self._mech_wrong_result(k, result, cls), keys=[k])
        # ---- C02 compute-once
        n_eval = s1['nlog'] - s0['nlog']
        dlt = tuple(s1['info'][j] - s0['info'][j] for j in range(3))
        if cfg['safe'] and cls in ('hit', 'load') and '__h__' in repr(self.case['ops'][self.step_i][1:3]) \
                and mem1 != mem0 and n_eval <= 1 and sum(dlt) == 1:
            # ... and when klepto's own `except KeyError` takes such an internal failure for a miss (an argument whose
            # repr() raises KeyError), the call runs the miss path with its purge: answered correctly, counted once,
            # but the history is not modelled further
            self.note('calls_degraded_though_keyable')
            self.abort_case = True
            return
        if cfg['safe'] and cls in ('hit', 'load') and '__h__' in repr(self.case['ops'][self.step_i][1:3]) \
                and mem1 == mem0 and ((n_eval == 1 and dlt == (0, 1, 0)) or (n_eval == 0 and cls == 'hit' and dlt == (0, 0, 1))):
            # an argument that cannot be printed / pickled / hashed everywhere (BadRepr & co.): a safe decorator may
            # degrade to plain evaluation at any internal step that needs repr() or hash() - e.g. CPython formatting
            # the "x not in deque" message - even though the key itself could be built; that is the documented
            # behaviour of the safe variants, not a statistics or compute-once defect
            self.note('calls_degraded_though_keyable')
            if n_eval == 0:
                self.abort_case = True     # (a hit that klepto served through its load path: recency not modelled further)
            return
        self.note('c02_checks')
        if n_eval and cls != 'degraded' and att0 and sk in self.retr:
            self.violation('C02', 'recomputed-retrievable-result',
                           'key %s was evaluated again although its result was computed earlier, never '
                           'cleared, and an archive was attached ever since' % sk, keys=[k])
        want = 1 if cls in ('miss', 'degraded') else 0
        if n_eval != want:
            self.violation('C02', 'evaluations',
                           '%s call (key %s; in memory: %s; attached: %s; in archive: %s) '
                           'evaluated the function %d times, expected %d'
                           % (cls, sk, k in mem0 if cls != 'degraded' else '-', att0,
                              (k in arch0) if cls != 'degraded' else '-', n_eval, want), keys=[k])
        # ---- C15 statistics
        self.note('c15_checks')
        d = tuple(s1['info'][j] - s0['info'][j] for j in range(3))
        wantd = {'hit': (1, 0, 0), 'load': (0, 0, 1), 'miss': (0, 1, 0), 'degraded': (0, 1, 0)}[cls]
        if d != wantd:
            self.violation('C15', 'counter-delta',
                           '%s call moved (hit,miss,load) by %r, expected %r' % (cls, d, wantd), keys=[k])
        if s1['info'][4] != len(mem1):
            self.violation('C15', 'size-mismatch', 'info().size=%r but %d entries resident'
                           % (s1['info'][4], len(mem1)))
        if s1['info'][3] != self.maxsize:
            self.violation('C15', 'maxsize-mismatch', 'info().maxsize=%r, configured %r'
                           % (s1['info'][3], self.maxsize))
        if cls == 'degraded':
            # (the non-caching decorator legitimately empties its memory at the end of every call)
            if (self.algo != 'no' and mem1 != mem0) or any(x not in mem0 for x in mem1):
                self.violation('C16', 'degraded-call-changed-memory',
                               'un-keyable call changed the cache')
            return
        # ---- C05 capacity
        self.check_bound(k, cls, mem0, mem1, att0)
        # ---- C18 coherence of the stored key
        self.note('c18_call_checks')
        newk = [x for x in mem1 if x not in mem0]
        if any(x != k for x in newk):
            self.violation('C18', 'stored-under-other-key',
                           'call with key %s created memory entries %r' % (sk, [skey(x) for x in newk]), keys=[k])
        if k in mem1 and not (mem1[k] == result):
            self.violation('C18', 'resident-value-differs',
                           'memory[%s] = %r after a call returning %r' % (sk, mem1[k], result), keys=[k])
        if att0:
            newa = [x for x in arch1 if x not in arch0]
            bad = [x for x in newa if x != k and x not in mem0]
            if bad:
                self.violation('C18', 'archived-under-other-key',
                               'archive gained keys %r not resident before' % [skey(x) for x in bad])
        # ---- C07 nothing lost
        if att0:
            self.note('c07_boundary_checks')
            for x, v in arch0.items():
                if x not in arch1:
                    self.violation('C07', 'archive-entry-removed',
                                   'archived key %s disappeared during a call' % skey(x), keys=[x, k])
                elif not (arch1[x] == v):
                    self.violation('C07', 'archive-entry-changed',
                                   'archived key %s changed value during a call' % skey(x), keys=[x, k])
        if cls == 'miss' and not sk.startswith('<unreprable'):
            # (keys that cannot be printed share one printable form: not tracked by name)
            self.retr[sk] = result
        left = [x for x in (set(mem0) | {k}) if x not in mem1]
        if att0 and s1['att']:
            for x in left:
                if x not in arch1 and (skey(x) in self.retr or (x == k and cls == 'miss')):
                    self.violation('C07', 'left-memory-not-in-archive',
                                   'key %s left memory during a call and is not in the attached archive'
                                   % skey(x), keys=[x])
            have = set(skey(x) for x in mem1) | set(skey(x) for x in arch1)
            for r in list(self.retr):
                if r not in have and r not in self.c07_reported:
                    self.c07_reported.add(r)
                    self.violation('C07', 'result-not-retrievable',
                                   'result for key %s was computed, never cleared, and is in neither '
                                   'memory nor archive' % r, keys=[self.seen[r]] if r in self.seen else [])
        else:
            have = set(skey(x) for x in mem1) | set(skey(x) for x in self.arch_any())
            for r in list(self.retr):
                if r not in have:
                    del self.retr[r]   # dropped while detached: legitimately gone
        if left:
            self.note('evictions', len(left))
            for x in left:
                self.ever_evicted.add(skey(x))
        if cls in ('load', 'miss') and sk in self.ever_evicted:
            self.flags.add('reenter_after_evict')
            self.note('reentries_after_eviction')
        # ---- C06 policy
        self.check_policy(k, cls, mem0, mem1, att0)

    def check_bound(self, k, cls, mem0, mem1, att0):
        self.note('c05_checks')
        cfg = self.cfg
        ms = self.maxsize
        n0, n1 = len(mem0), len(mem1)
        if ms is None:
            lost = [skey(x) for x in mem0 if x not in mem1]
            if lost:
                self.violation('C05', 'unbounded-cache-evicted',
                               'maxsize=None but entries disappeared: %r' % lost[:4])
        elif ms == 0:
            if n1 != 0:
                self.violation('C05', 'maxsize0-resident', 'maxsize=0 but %d entries resident after a call' % n1)
        else:
            if n1 > max(ms, n0):
                self.violation('C05', 'bound-exceeded',
                               'resident %d -> %d with maxsize %d' % (n0, n1, ms))
            overflow = cls != 'hit' and len(set(mem0) | {k}) > ms
            if overflow:
                self.note('c05_overflows')
                if cfg['purge'] and att0 and n1 != 0:
                    self.violation('C05', 'purge-left-entries',
                                   'purge overflow left %d entries resident' % n1)

    def _mech_wrong_result(self, k, result, cls):
        """derive the mechanism of a wrong result from the witness: the returned value is the
        canonical binding of *another* call B of this history; if B's key equals this call's key
        the keymap merged them - and if the un-stringified flat key is a bare scalar under
        stringmap(encoding=None) it is the known str(1)==str('1') collision."""
        try:
            cands = []
            for op in self.case['ops'][: self.step_i]:
                if op[0] == 'call':
                    cands.append((op[1], op[2]))
                elif op[0] in ('overfill', 'archfill'):   # entries inserted with the function's own values
                    cands.extend((c[0], c[1]) for c in op[1])
            for ea, ekw in cands:
                a, kw = dec(ea), dec(ekw)
                if not (self.probe.raw(*a, **kw) == result):
                    continue
                ok, kb = self.keyof(a, kw)
                if not ok or kb != k:
                    continue
                km = self.cfg['keymap']
                if km['cls'] == 'stringmap' and km['type'] is None and km['flat'] and not km['typed']:
                    from klepto._inspect import _keygen
                    plain = dict(km); plain['cls'] = 'keymap'
                    rawmap = gen.build_keymap(klepto, plain)
                    ign = dec(self.cfg['ignore']) if self.cfg.get('ignore') is not None else ()
                    ra, rk = _keygen(self.probe.fn, ign, *a, **kw)
                    rawkey = rawmap(*ra, **rk)
                    if not isinstance(rawkey, tuple):
                        return ['stringmap-str-of-bare-scalar']
                    # ... or the *current* call is the one whose lone argument was unwrapped (f('()') meets f())
                    cur = self.case['ops'][self.step_i]
                    ca, ck = _keygen(self.probe.fn, ign, *dec(cur[1]), **dec(cur[2]))
                    if not isinstance(rawmap(*ca, **ck), tuple):
                        return ['stringmap-str-of-bare-scalar']
                return ['keymap-collision-unclassified']
        except Exception:
            pass
        return []

    def check_policy(self, k, cls, mem0, mem1, att0):
        self.tick += 1
        sk = skey(k)
        cfg = self.cfg
        ms = self.maxsize
        left = [x for x in (set(mem0) | {k}) if x not in mem1]
        if cls == 'hit' and cfg['safe'] and sk.startswith('<unreprable'):
            # a safe decorator may abandon its bookkeeping half-way for an argument that cannot be printed (CPython
            # formats "x not in deque" with repr(x) inside queue.remove, and the bare except degrades): such keys
            # are not judged by name
            self.note('c06_skipped_unprintable_key')
        elif cls == 'hit':
            self.note('c06_hit_checks')
            if left:
                self.violation('C06', 'hit-removed-entries',
                               'a hit on %s removed %r' % (sk, [skey(x) for x in left]))
        # update shadow use history for k
        if cls == 'hit':
            self.uses[sk] = self.uses.get(sk, 0) + 1
        else:
            self.uses[sk] = 1
            self.tracked.add(sk)
        prev_last = dict(self.last_use)
        self.last_use[sk] = self.tick
        if self.algo in BOUNDED and cls != 'hit' and ms:
            overflow = len(set(mem0) | {k}) > ms
            purge_path = cfg['purge'] and att0
            if not overflow:
                if left:
                    self.violation('C06', 'evicted-without-overflow',
                                   'no overflow (resident %d, maxsize %d) but %r removed'
                                   % (len(mem0), ms, [skey(x) for x in left]))
            elif purge_path:
                self.note('purges')
                self.flags.add('purged')
            elif len(mem0) > ms:
                self.note('c06_skipped_overfilled')
            elif not all(skey(x) in self.tracked for x in mem0):
                self.note('c06_skipped_untracked')
            elif any(skey(x).startswith('<unreprable') for x in list(mem0) + [k]):
                # the shadow use-history is indexed by the printable form of a key; keys that cannot be printed
                # (an argument whose repr() raises, kept as-is by a raw keymap) share one form and cannot be told apart
                self.note('c06_skipped_unprintable_key')
            else:
                self.note('c06_policy_checks')
                self.flags.add('policy_judged')
                if len(mem0) >= 2:
                    self.flags.add('policy_choice')
                    self.note('c06_policy_checks_with_choice')
                self.judge_victims(k, mem0, left, prev_last)
        for x in left:
            sx = skey(x)
            self.last_use.pop(sx, None)
            self.uses.pop(sx, None)
            self.tracked.discard(sx)
        if not mem1:
            self.last_use.clear(); self.uses.clear(); self.tracked.clear()

    def judge_victims(self, k, mem0, left, prev_last):
        a = self.algo
        sk = skey(k)
        names = [skey(x) for x in left]
        if a == 'lru':
            cand = [skey(x) for x in mem0]
            want = min(cand, key=lambda s: prev_last.get(s, -1))
            if names != [want]:
                self.violation('C06', 'lru-wrong-victim',
                               'LRU evicted %r; least recently used resident entry was %s (last uses %r)'
                               % (names, want, dict((c, prev_last.get(c)) for c in cand)))
        elif a == 'mru':
            cand = [skey(x) for x in mem0]
            want = max(cand, key=lambda s: prev_last.get(s, -1))
            if names != [want]:
                self.violation('C06', 'mru-wrong-victim',
                               'MRU evicted %r; entry used most recently before this call was %s (last uses %r)'
                               % (names, want, dict((c, prev_last.get(c)) for c in cand)))
        elif a == 'lfu':
            if not names:
                self.violation('C06', 'lfu-no-victim', 'LFU overflow removed nothing')
                return
            kept = [skey(x) for x in (set(mem0) | {k}) if x not in left]
            vmax = max(self.uses.get(n, 0) for n in names)
            kmin = min([self.uses.get(n, 0) for n in kept]) if kept else None
            if kmin is not None and vmax > kmin:
                self.violation('C06', 'lfu-wrong-victim',
                               'LFU evicted %r (uses %r) but kept entries with fewer uses %r'
                               % (names, [self.uses.get(n) for n in names],
                                  dict((n, self.uses.get(n)) for n in kept)))
        elif a == 'rr':
            if len(names) != 1:
                self.violation('C06', 'rr-victim-count', 'RR evicted %d entries: %r' % (len(names), names))

    # -- key()/lookup() ----------------------------------------------------------------------
    def do_introspect(self, i, op, s0):
        args, kwds = dec(op[1]), dec(op[2])
        f = self.f
        ok, k = self.keyof(args, kwds)
        outcome = None
        if op[0] == 'key':
            try:
                k2 = f.key(*args, **kwds)
                outcome = ['ret', skey(k2)]
            except Exception as e:
                outcome = ['exc', type(e).__name__]
        else:
            try:
                v = f.lookup(*args, **kwds)
                outcome = ['ret', srepr(v)]
            except KeyError:
                outcome = ['exc', 'KeyError']
                v = KeyError
            except Exception as e:
                outcome = ['exc', type(e).__name__]
                v = e
        s1 = self.snapshot()
        if self.monitors:
            self.note('c18_introspection_checks')
            if s1['nlog'] != s0['nlog']:
                self.violation('C18', 'introspection-evaluated', '%s() evaluated the function' % op[0])
            if s1['mem'] != s0['mem'] or s1['arch'] != s0['arch']:
                self.violation('C18', 'introspection-changed-contents', '%s() changed cache/archive' % op[0])
            if tuple(s1['info']) != tuple(s0['info']):
                self.violation('C18', 'introspection-changed-stats',
                               '%s() changed info(): %r -> %r' % (op[0], s0['info'], s1['info']))
            if op[0] == 'lookup' and ok:
                if k in s0['mem']:
                    self.note('c18_lookup_resident')
                    self.flags.add('lookup_resident')
                    if v is KeyError or isinstance(v, Exception) or not (v == s0['mem'][k]):
                        self.violation('C18', 'lookup-wrong',
                                       'lookup returned %r; resident value is %r' % (outcome, s0['mem'][k]))
                else:
                    self.note('c18_lookup_absent')
                    self.flags.add('lookup_absent')
                    if v is not KeyError:
                        self.violation('C18', 'lookup-absent-no-keyerror',
                                       'lookup of a non-resident call gave %r, expected KeyError' % (outcome,))
            if op[0] == 'lookup' and not ok and v is not KeyError and not isinstance(v, Exception):
                self.violation('C18', 'lookup-returned-for-unkeyable-call',
                               'lookup of a call whose key cannot be built returned %r (nothing can be resident for it)' % (outcome,))
        return self.summarize(op, outcome, s1)

    # -- second instance on the same archive ------------------------------------------------------
    def do_switch(self, i, op, s0):
        """two *simultaneously live* instances (own function object, own in-memory cache, own handle) on one
        persistent archive: park the current one and continue with the other"""
        cur = {'f': self.f, 'probe': self.probe, 'arch_obj': self.arch_obj, 'deco': getattr(self, 'deco', None),
               'swapped': getattr(self, 'swapped', False),
               'last_use': self.last_use, 'uses': self.uses, 'tracked': self.tracked, 'retr': self.retr,
               'assigned': self.assigned}
        other = getattr(self, 'parked', None)
        self.parked = cur
        if other is None:
            self.arch_obj = gen.build_archive(klepto, self.backend, self.root)
            self.swapped = False
            self.probe = gen.Probe(self.case['sig'], self.rmode)
            self.assigned = None
            self._decorate()
            self.last_use, self.uses, self.tracked, self.retr = {}, {}, set(), {}
        else:
            self.f, self.probe, self.arch_obj, self.deco = other['f'], other['probe'], other['arch_obj'], other['deco']
            self.last_use, self.uses, self.tracked, self.retr = other['last_use'], other['uses'], other['tracked'], other['retr']
            self.assigned = other['assigned']
            self.swapped = other['swapped']
        # whatever has reached the (shared) archive is owed to this instance too - if its archive is attached
        if self.f.archived() and getattr(self.cache(), 'archive', None) is self.arch_obj:
            for k, v in self.arch_any().items():
                self.retr.setdefault(skey(k), v)
                self.seen.setdefault(skey(k), k)
        else:
            self.retr.clear()
        self.note('instance_switches')
        s1 = self.snapshot()
        return self.summarize(op, None, s1)

    def do_reopen(self, i, op, s0):
        b = self.backend
        self.gen += 1
        self.assigned = None
        if b['kind'] not in ('dict', 'null', 'dict_archive') and not b.get('memory'):
            self.arch_obj = gen.build_archive(klepto, b, self.root)   # a new handle
            self.swapped = False
        old_log = self.probe.log
        self.probe = gen.Probe(self.case['sig'], self.rmode)          # a fresh function object
        # a new instance does not inherit memory: only archived results stay retrievable
        keep = set(skey(k) for k in self.arch_any())
        for r in list(self.retr):
            if r not in keep:
                del self.retr[r]
        self._decorate()
        self.last_use.clear(); self.uses.clear(); self.tracked.clear()
        self.note('reopens')
        self.flags.add('reopened')
        s1 = self.snapshot()
        if self.monitors:
            if not b.get('direct') and s1['mem']:
                self.violation('C02', 'fresh-instance-not-empty', 'new instance starts with entries')
        return self.summarize(op, None, s1)


# =========================================================================================
# case generation

def pick_backend(rng, focus):
    bs = gen.BACKENDS
    w = []
    for b in bs:
        if b['kind'] in ('dict', 'null'):
            w.append(3)
        elif b['kind'] == 'dict_archive':
            w.append(8)
        elif b['kind'] == 'sql' and b.get('memory'):
            w.append(2)
        else:
            w.append(1)
    b = dict(rng.choices(bs, weights=w)[0])
    if b['kind'] not in ('dict', 'null') and rng.random() < 0.12:
        b['direct'] = True
    return b


def gen_case(rng, focus, nops=None):
    """one random case (cfg + sig + ops) for the given focus property"""
    for _ in range(200):
        sig = rng.choice(gen.SIGS + (['x, y=0.12345', 'x=1.005, y=2.675'] if focus == 'C18' else []))
        b = pick_backend(rng, focus)
        kms = gen.keymap_cfgs()
        km = rng.choice(kms)
        if focus in ('C01', 'C02') and rng.random() < 0.2:
            km = rng.choice([k for k in kms if k['typed']])
        if not gen.km_info_preserving(km, sig):
            continue
        kk = gen.key_kind(km)
        if not gen.backend_accepts(b, kk, km):
            continue
        safe = rng.random() < 0.4
        if safe and rng.random() < (0.4 if focus == 'C16' else (0.12 if focus in ('C01', 'C05', 'C06', 'C15') else 0)):
            km = {'cls': 'keymap', 'type': None, 'flat': True, 'typed': rng.random() < 0.3,
                  'sentinel': gen.sig_has_varargs(sig) or rng.random() < 0.3}
            kk = 'raw'
            if not gen.backend_accepts(b, kk, km):
                b = {'kind': 'dict_archive'}
        if kk == 'raw' and not km['flat']:
            continue   # (args, kwds) raw keys are unhashable: every call fails at once / degrades
        break
    else:
        raise RuntimeError('no compatible configuration found')
    bare = focus in ('C01', 'C02', 'C05', 'C06', 'C07', 'C15') and rng.random() < 0.06
    if bare:
        # bare keys: a lone positional of a plain type is its own key under the flat raw keymap - so the cache's
        # keys are None, 0, '', (), False ...: values that internal markers and truth tests are easily confused with
        sig = '*args'
        km = {'cls': 'keymap', 'type': None, 'flat': True, 'typed': False, 'sentinel': False}
        if rng.random() < 0.6:
            # ... or the encoded form of that lone argument (its digest, its pickle, its text), which has to keep 1, '1',
            # None and 'None' apart just the same
            # (the unwrapped-scalar collision of stringmap(encoding=None) is a recorded finding, listed for C01 only)
            km = rng.choice([k for k in kms if k['flat'] and not k['typed'] and not k['sentinel'] and not k.get('outer')
                             and not (k['cls'] == 'stringmap' and k['type'] is None and focus != 'C01')])
        kk = gen.key_kind(km)
        if not gen.backend_accepts(b, kk, km):
            b = {'kind': 'dict_archive'}
    algo = rng.choice(ALGOS if focus not in ('C06',) else list(BOUNDED))
    if focus in ('C05', 'C06', 'C07') and rng.random() < 0.7:
        algo = rng.choice(BOUNDED)
    if focus == 'C16' and safe and rng.random() < 0.6:
        algo = rng.choice(BOUNDED)
    maxsize = rng.choice([1, 2, 3, 5, 8]) if focus == 'C06' else rng.choice([1, 2, 3, 3, 5, 8, 0, None])
    cfg = {'algo': algo, 'safe': safe, 'maxsize': maxsize,
           'maxsize_positional': rng.random() < 0.5, 'purge': rng.random() < 0.35,
           'keymap': km, 'backend': b}
    # (the decorator is sometimes a copy.copy of the configured one - e.g. one template decorator applied to many functions)
    cfg['copied'] = rng.random() < 0.1
    cfg['bystander'] = rng.random() < 0.15
    if focus == 'C18':
        if rng.random() < 0.4:
            cfg['tol'] = rng.choice([0, 1, 2]); cfg['deep'] = rng.random() < 0.4
        names = [n for kd, n in gen.sig_names(sig) if kd == 'pos']
        if names and rng.random() < 0.3:
            cfg['ignore'] = enc([rng.choice(names + list(range(len(names))))])
            cfg['ignore_scalar'] = rng.random() < 0.4
    if cfg.get('tol') is not None and b.get('direct') and b['kind'] == 'dir':
        # rounding makes ==-equal keys of different type (round(1.005, 0) == 1.0 == 1): a dict merges them, a directory
        # archive used *as* the cache names them apart - the harness's dict snapshots cannot represent that
        b.pop('direct')
    if focus == 'C02' and rng.random() < 0.2:
        # ignored arguments put klepto's NULL marker into the key; the key must still find its
        # archived entry (only C02's own monitors are reported for these histories)
        names = [n for kd, n in gen.sig_names(sig) if kd == 'pos']
        if names:
            cfg['ignore'] = enc([rng.choice(names)])
    if cfg.get('ignore') is not None and kk == 'raw' and not gen.backend_accepts(b, kk, dict(km, sentinel=True)):
        del cfg['ignore']   # NULL (like the sentinel) has no source-text repr: outside that backend's key domain
    if algo not in BOUNDED:
        cfg['maxsize'] = 0 if algo == 'no' else None
    universe = list(gen.UNIVERSE)
    if bare:
        universe = [None, 0, '', (), 1, 'a', 2, 'b', 3, 2.5, -1, 'x', '1', 'None', '0', '()', '2.5']
        if b['kind'] == 'dir':
            # (a directory archive names the entries of None and 'None', 1 and '1' alike - the recorded aliasing finding,
            # which the ordinary universes exercise; not here)
            universe = universe[:12]
    if rng.random() < 0.3 and not bare:
        # text that is canonically equivalent (NFC == NFC) but not equal: different arguments
        universe += [u'caf\u00e9', u'cafe\u0301']
        if rng.random() < 0.5:
            universe += [u'\u2126', u'\u03a9']       # OHM SIGN / GREEK CAPITAL OMEGA
    if focus == 'C18':
        universe += [2.54, 2.51, 0.12345, 1.005]
        if rng.random() < 0.4:
            universe += [1.0, True, 2.0]          # ==-equal look-alikes of other arguments
        if cfg.get('deep'):
            universe += [(2.54, 'a'), (2.51, 'a'), (1, (0.12345, 2))]
    if km['typed'] and focus in ('C01', 'C02', 'C15') and gen.result_mode(b) == 'tuple' and rng.random() < 0.6:
        # typed keys promise separate entries for ==-equal values of different type; results are then
        # compared type-strictly (repr), so a typed keymap that merges 1 / 1.0 / True shows as a wrong result
        universe += [1.0, True, 2.0, 0.0]
    if focus in ('C06', 'C16', 'C18', 'C20') and b['kind'] == 'dir':
        # twin comparisons cannot attribute a divergence to the known file-name aliasing of
        # dir_archive ('a-b'/'a_b', 1/'1'), so those foci do not feed it alias pairs
        universe = [u for u in universe if u not in ('a_b', '1')]
    ms = effective_maxsize(cfg) or 3
    npool = min(len(universe), ms + rng.choice([1, 2, 3, 4]))
    pool = []
    while len(pool) < npool:
        c = gen.gen_call(rng, sig, universe)
        if c not in pool:
            pool.append(c)
    if gen.sig_has_varargs(sig) and len(pool) >= 2 and rng.random() < 0.3:
        # a call whose positionals are those of two other calls put together (raw keys: a tuple whose elements are
        # themselves keys of the cache)
        a, b2 = rng.sample(pool, 2)
        comp = (list(a[0]) + list(b2[0]), dict(a[1]))
        try:
            gen.Probe(sig).raw(*comp[0], **comp[1])
            if comp not in pool:
                pool.append(comp)
        except TypeError:
            pass
    if km['typed'] and 1.0 in universe:
        # type-swapped twins: the same call with ==-equal values of another type, keywords in another order
        named = [n for kd, n in gen.sig_names(sig) if kd == 'pos']
        if len(named) >= 2:
            va, vb = rng.choice([(1, 1.0), (1, True), (0, False), (0.0, 0), (2, 2.0), (True, 1.0)])
            rest = dict((n, rng.choice(universe)) for n in named[2:])
            A = ([va, vb] + [rest[n] for n in named[2:]], {})
            items = [(named[1], va), (named[0], vb)] + list(rest.items())
            if rng.random() < 0.5:
                rng.shuffle(items)
            B = ([], dict(items)) if rng.random() < 0.6 else ([vb], dict(i for i in items if i[0] != named[0]))
            for t in (A, B):
                if repr(t) not in [repr(x) for x in pool]:
                    pool.insert(rng.randrange(min(len(pool), ms) + 1), t)
        for c in list(pool)[:3]:
            t = _typed_twin(rng, c)
            if t is not None and repr(t) not in [repr(x) for x in pool]:
                pool.insert(rng.randrange(len(pool) + 1), t)
    if safe and b['kind'] in ('dict', 'null', 'dict_archive') and rng.random() < (0.7 if (focus == 'C16' or kk == 'raw') else 0.25) \
            and focus not in ('C20',):
        # un-keyable arguments: the safe decorators must degrade to plain evaluation
        hostile = [[1, 2], {'a': 1}, {'__s__': [1, 2]}, {'__h__': 'badrepr'}, {'__h__': 'badhash'},
                   {'__h__': 'badreduce'}, {'__d__': [[1, 2]]}, [[1], [2]],
                   {'__h__': 'badrepr_ke'}, {'__h__': 'badhash_ke'}, {'__h__': 'badreduce_ke'}]
        if focus == 'C16':
            hostile.append({'__deep__': 6000})     # nested far deeper than repr / pickle / hash can recurse
        for _ in range(rng.choice([1, 2, 3])):
            c = gen.gen_call(rng, sig, [gen.Pre(h) for h in rng.sample(hostile, 3)] + universe[:2])
            pool.append(c)
    n = nops or rng.choice([20, 30, 40, 60, 80])
    if focus == 'C06' and rng.random() < 0.5:
        n = rng.choice([120, 200, 300])
    ops = gen_history(rng, focus, cfg, pool, n, ms)
    case = {'cfg': cfg, 'sig': sig, 'ops': ops, 'seed': rng.randrange(1 << 30), 'focus': focus}
    return case


_TWINS = {1: [1.0, True], 0: [0.0, False], 2: [2.0], 2.0: [2], 1.0: [1, True], 0.0: [0, False], 3: [3.0]}


def _typed_twin(rng, c):
    def tw(v):
        if type(v) in (int, float, bool) and v in _TWINS:
            for k, alts in _TWINS.items():
                if type(k) is type(v) and k == v:
                    return rng.choice(alts)
        return v
    args = [tw(v) for v in c[0]]
    items = [(k, tw(v)) for k, v in c[1].items()]
    rng.shuffle(items)
    t = (args, dict(items))
    same = all(type(a) is type(b) for a, b in zip(args, c[0])) and \
        all(type(t[1][k]) is type(c[1][k]) for k in c[1])
    return None if same else t


def _call(c, raise_name=None):
    op = ['call', enc(c[0]), enc(c[1])]
    if raise_name:
        op.append(raise_name)
    return op


def gen_history(rng, focus, cfg, pool, n, ms):
    ops = []
    has_arch = cfg['backend']['kind'] not in ('dict', 'null') and not cfg['backend'].get('direct')
    pattern = rng.choice(['random', 'zipf', 'loop', 'scan', 'hit_then_overflow', 'long_hits'])
    if focus == 'C06' and n >= 120:
        pattern = rng.choice(['long_hits', 'long_hits', 'resident_walk', 'zipf'])
    recent = []
    mgmt_p = {'C01': 0.15, 'C02': 0.15, 'C05': 0.2, 'C06': 0.03, 'C07': 0.1, 'C15': 0.25,
              'C16': 0.05, 'C18': 0.05, 'C20': 0.08}.get(focus, 0.1)
    raise_p = {'C16': 0.25, 'C15': 0.08, 'C06': 0.05, 'C05': 0.05, 'C01': 0.03, 'C02': 0.03, 'C07': 0.03}.get(focus, 0.0)
    intro_p = 0.3 if focus == 'C18' else 0.0
    weights = [1.0 / (j + 1) for j in range(len(pool))]
    pos = 0
    hot = pool[: max(1, ms)]
    while len(ops) < n:
        r = rng.random()
        if r < mgmt_p:
            ops.append(gen_mgmt(rng, focus, cfg, pool, has_arch))
            continue
        if r < mgmt_p + intro_p:
            c = rng.choice(pool)
            ops.append([rng.choice(['key', 'lookup', 'lookup']), enc(c[0]), enc(c[1])])
            continue
        if pattern == 'random':
            c = rng.choice(pool)
        elif pattern == 'zipf':
            c = rng.choices(pool, weights=weights)[0]
        elif pattern == 'loop':
            c = pool[pos % len(pool)]; pos += 1
        elif pattern == 'scan':
            c = pool[pos % len(pool)]; pos += rng.choice([1, 1, 2])
        elif pattern == 'hit_then_overflow':
            if rng.random() < 0.6:
                c = rng.choice(hot)
            else:
                c = rng.choice(pool)
        elif pattern == 'resident_walk':
            # mostly re-reference one of the last `ms` distinct calls (they are resident), in a
            # changing order; occasionally a new call overflows - recency order matters each time
            if recent and rng.random() < 0.9:
                c = rng.choice(recent)
            else:
                c = rng.choice(pool)
        else:  # long_hits: many hits on few keys (forces LRU queue compaction), rare overflow
            if rng.random() < 0.93:
                c = rng.choice(hot)
            else:
                c = rng.choice(pool)
        if c in recent:
            recent.remove(c)
        recent.append(c)
        del recent[:-max(1, ms)]
        rn = rng.choice(sorted(EXC_TYPES)) if rng.random() < raise_p else None
        ops.append(_call(c, rn))
    if focus in ('C02', 'C05', 'C15', 'C07') and has_arch and rng.random() < 0.35:
        # "warm start": the archive already holds part of the pool, the memory cache is emptied (or a
        # new instance is created) and bulk-loaded, and only then do calls - some of them new - arrive
        part = rng.sample(pool, max(1, int(len(pool) * rng.choice([0.5, 0.7]))))
        warm = [['archfill', [[enc(c[0]), enc(c[1])] for c in part]],
                rng.choice([['clear', None], ['clear', 1], ['reopen']]), ['load']]
        at = rng.randrange(0, max(1, len(ops) // 2))
        ops[at:at] = warm
    return ops


def gen_mgmt(rng, focus, cfg, pool, has_arch):
    choices = [['clear', None], ['clear', 1], ['clear', 0]]
    sub = [[enc(c[0]), enc(c[1])] for c in rng.sample(pool, min(len(pool), rng.choice([1, 2])))]
    if has_arch:
        choices += [['dump'], ['dump', sub], ['load', sub], ['archived', 0], ['archived', 1],
                    ['archived', 1], ['reopen']]
        if focus in ('C02', 'C07'):
            choices += [['swaparchive'], ['archived', 0]]
        if focus in ('C01', 'C02', 'C07') and gen.persistent(cfg['backend']):
            choices += [['switch'], ['switch'], ['switch']]
        if focus in ('C01', 'C02', 'C05', 'C15', 'C07'):
            part = rng.sample(pool, max(1, int(len(pool) * rng.choice([0.4, 0.6, 1.0]))))
            choices += [['load'], ['load'], ['archfill', [[enc(c[0]), enc(c[1])] for c in part]],
                        ['swaparchive']]
    if not has_arch and focus in ('C01', 'C02', 'C05', 'C07', 'C15') and not cfg['backend'].get('direct'):
        choices += [['swaparchive']]     # an archive attached after decoration
    if focus in ('C05', 'C01'):
        choices += [['overfill', [[enc(c[0]), enc(c[1])] for c in pool]]]
    if focus in ('C06',):
        choices = [['clear', None], ['clear', 1]] + ([['dump']] if has_arch else [])
        if rng.random() < 0.3:
            # entries that arrive without a call (bulk load, preloaded cache) have no recency - the policy is not
            # judged for them - but "a hit never removes anything" holds in every state, also above the bound
            choices = [['overfill', [[enc(c[0]), enc(c[1])] for c in pool]]] + \
                ([['load'], ['archfill', [[enc(c[0]), enc(c[1])] for c in pool]]] if has_arch else [])
    if focus == 'C20':
        choices = [['clear', 1]] + ([['archived', 0], ['archived', 1], ['archived', 1], ['dump']] if has_arch else [])
    return rng.choice(choices)


# =========================================================================================
# judging whole cases

REC_PROPS = ('C01', 'C02', 'C05', 'C07', 'C15')

NONTRIVIAL = {
    'C01': lambda r: r.cnt.get('calls_hit', 0) > 0 and (r.cnt.get('calls_load', 0) > 0 or 'reenter_after_evict' in r.flags),
    'C02': lambda r: 'reenter_after_evict' in r.flags or r.cnt.get('calls_load', 0) > 0,
    'C05': lambda r: r.cnt.get('c05_overflows', 0) > 0,
    'C06': lambda r: 'policy_choice' in r.flags,
    'C07': lambda r: r.cnt.get('c07_drop_hook_evals', 0) > 0,
    'C15': lambda r: r.cnt.get('calls_hit', 0) > 0 and r.cnt.get('calls_miss', 0) > 0,
    'C16': lambda r: r.cnt.get('c16_armed_raises', 0) > 0 and r.cnt.get('evictions', 0) > 0,
    'C18': lambda r: 'lookup_resident' in r.flags and 'lookup_absent' in r.flags,
    'C20': lambda r: True,
}
RULES = {
    'C01': 'history has >=1 memory hit and >=1 call answered from the archive or recomputed after its key was evicted',
    'C02': 'history has >=1 key that re-entered the cache after eviction or was loaded from the archive',
    'C05': 'history has >=1 overflowing insertion',
    'C06': 'history has >=1 eviction judged against the policy with >=2 resident candidates',
    'C07': 'history has >=1 drop-hook evaluation (entry leaving memory while an archive is attached)',
    'C15': 'history has >=1 hit and >=1 miss',
    'C16': 'history has >=1 armed exception that fired and >=1 eviction',
    'C18': 'history has >=1 lookup of a resident call and >=1 lookup of a non-resident call',
    'C20': 'non-empty prefix before the dill round trip and a lock-step continuation in which an insertion evicted or purged',
}


def compare_obs(a, b, skip, what, prop, case, viol, until=None):
    """index-aligned comparison of two observation lists; records the first divergence"""
    n = min(len(a), len(b))
    for i in range(n):
        if i in skip or a[i] is None or b[i] is None:
            continue
        if a[i].get('abort') or b[i].get('abort'):
            return
        x = dict(a[i]); y = dict(b[i])
        for o in (x, y):
            o.pop('nlog', None)
        # counters differ by construction only through skipped ops; compare everything else
        if x != y:
            viol.append({'property': prop, 'kind': what, 'mech': [], 'step': i, 'case': case, 'obs_pair': [x, y],
                         'msg': 'twin runs diverge at step %d (%s): %r vs %r' % (i, a[i]['op'],
                                                                                 _short(x), _short(y))})
            return


def _short(o):
    return dict((k, (v if not isinstance(v, list) or len(v) < 8 else v[:8] + ['...'])) for k, v in o.items())


def run_case(case, prop):
    """run one case with all monitors (and the twins its focus needs); return (runner, violations)"""
    cwd0 = cwd_or_gone()
    r1, viol = _run_case(case, prop)
    if cwd_or_gone() != cwd0:
        # (a process that is left in another directory resolves every relative archive name elsewhere)
        viol.append({'property': prop, 'kind': 'working-directory-changed', 'mech': [], 'case': case, 'step': -1,
                     'msg': 'the history left the process in %s (it started in %s)' % (cwd_or_gone(), cwd0)})
        os.chdir(cwd0)
    return r1, viol


def _run_case(case, prop):
    with Scratch('cm') as root:
        os.makedirs(os.path.join(root, 'a'))
        r1 = Runner(case, os.path.join(root, 'a'))
        r1.run()
        viol = list(r1.viol)
        twin_checked = 0
        if prop == 'C16' and r1.armed and r1.construct_error is None:
            os.makedirs(os.path.join(root, 'b'))
            r2 = Runner(case, os.path.join(root, 'b'), skip=r1.armed, monitors=False).run()
            compare_obs(r1.obs, r2.obs, set(r1.armed), 'twin-diverged-after-raise', 'C16', case, viol)
            twin_checked = 1
        if prop == 'C18' and r1.construct_error is None:
            idx = [i for i, op in enumerate(case['ops']) if op[0] in ('key', 'lookup')]
            if idx:
                os.makedirs(os.path.join(root, 'b'))
                r2 = Runner(case, os.path.join(root, 'b'), skip=idx, monitors=False).run()
                compare_obs(r1.obs, r2.obs, set(idx), 'twin-diverged-after-introspection', 'C18', case, viol)
                twin_checked = 1
        if case.get('selftest') and r1.construct_error is None and r1.moncache:
            os.makedirs(os.path.join(root, 'c'))
            r3 = Runner(case, os.path.join(root, 'c'), moncache=False, monitors=False).run()
            v3 = []
            compare_obs(r1.obs, r3.obs, set(), 'moncache-not-transparent', 'SELF', case, v3)
            r1.note('selftest_moncache_runs')
            if v3:
                r1.note('selftest_moncache_divergences')
                viol.extend(v3)
        if twin_checked:
            r1.note('twin_runs')
        return r1, viol


def sibling_stats_case(rng):
    """one decorator *instance* applied to two functions (a common idiom: memo = lru_cache(...); @memo twice).
    The two wrappers share the decorator's cache object by construction, so they are given disjoint argument
    universes and no eviction; each wrapper's info() must still account for exactly its own calls (C15)"""
    universe = {'f': [0, 1, 2, 3, 4], 'g': ['a', 'b', 'c', 'd']}
    calls = []
    for _ in range(rng.choice([10, 20, 40])):
        who = rng.choice(['f', 'g'])
        calls.append([who, rng.choice(universe[who])])
    case = {'sibling': True, 'algo': rng.choice(['inf', 'lru', 'lfu', 'mru', 'rr']), 'safe': rng.random() < 0.4,
            'keymap': rng.choice([k for k in gen.keymap_cfgs() if k['flat']]), 'calls': calls}
    return run_sibling(case)


def run_sibling(case):
    viol = []
    algo, safe = case['algo'], case['safe']
    mod = klepto.safe if safe else klepto
    kw = {'keymap': gen.build_keymap(klepto, case['keymap'])}
    if algo != 'inf':
        kw['maxsize'] = 1000
    deco = getattr(mod, algo + '_cache')(**kw)
    logs = {'f': [], 'g': []}
    f = deco(lambda x: (logs['f'].append(x), ('f', x))[1])
    g = deco(lambda x: (logs['g'].append(x), ('g', x))[1])
    done = {'f': 0, 'g': 0}
    name = '%s%s_cache' % ('safe.' if safe else '', algo)
    for n, (who, x) in enumerate(case['calls']):
        fn, other = (f, g) if who == 'f' else (g, f)
        o0 = tuple(other.info())[:3]
        r = fn(x)
        done[who] += 1
        if r != (who, x):
            return viol      # (colliding keys would be another subject)
        if tuple(other.info())[:3] != o0:
            viol.append({'property': 'C15', 'kind': 'sibling-call-moved-counters', 'mech': [], 'case': case, 'step': n,
                         'msg': 'two functions decorated by one %s instance: a call of %s moved the counters of the '
                                'other function %r -> %r' % (name, who, o0, tuple(other.info())[:3])})
            return viol
    for who, fn in (('f', f), ('g', g)):
        i = fn.info()
        if i.hit + i.miss + i.load != done[who] or i.miss != len(logs[who]):
            viol.append({'property': 'C15', 'kind': 'sibling-counters-wrong', 'mech': [], 'case': case, 'step': -1,
                         'msg': 'two functions decorated by one %s instance: %s completed %d calls and was evaluated '
                                '%d times, info() = %r' % (name, who, done[who], len(logs[who]), tuple(i))})
    return viol


class Unstorable(object):
    """a perfectly good result (hashable, comparable, printable) that no serializer can write"""
    def __init__(self, n):
        self.n = n

    def __eq__(self, o):
        return isinstance(o, Unstorable) and o.n == self.n

    def __ne__(self, o):
        return not self == o

    def __hash__(self):
        return hash(('Unstorable', self.n))

    def __repr__(self):
        return 'Unstorable(%d)' % self.n

    def __reduce_ex__(self, proto):
        raise TypeError('cannot pickle Unstorable')


def unstorable_case(rng):
    """C07 where the archive *refuses* a result: a bounded cache whose attached archive serializes, and a function
    that now and then returns something the serializer cannot write.  klepto then lets the purge fail (the call
    raises and the cache stays over-full) - what it may not do is drop results it could not archive."""
    b = rng.choice([{'kind': 'file', 'serialized': True, 'protocol': None}, {'kind': 'file', 'serialized': True, 'protocol': 2},
                    {'kind': 'dir', 'serialized': True, 'protocol': None}, {'kind': 'dir', 'serialized': True, 'fast': True, 'protocol': None},
                    {'kind': 'dir', 'serialized': True, 'compression': 3, 'protocol': None},
                    {'kind': 'sql'}])
    km = rng.choice([k for k in gen.keymap_cfgs() if k['cls'] in ('stringmap', 'hashmap') and not k.get('outer')
                     and k.get('type') is None])
    calls = []
    for _ in range(rng.choice([6, 10, 16, 24])):
        r = rng.random()
        if r < 0.2:
            calls.append(['u', rng.randrange(3)])
        elif r < 0.27:
            calls.append(['dump'])
        else:
            calls.append(['i', rng.randrange(6)])
    return {'unstorable': True, 'algo': rng.choice(['lru', 'lfu', 'mru', 'rr']), 'maxsize': rng.choice([1, 2, 3]),
            'purge': rng.random() < 0.5, 'keymap': km, 'backend': b, 'calls': calls}


def run_unstorable(case):
    viol, cnt = [], {}
    cwd0 = cwd_or_gone()

    def note(c, n=1):
        cnt[c] = cnt.get(c, 0) + n

    def bad(kind, msg, step):
        viol.append({'property': 'C07', 'kind': kind, 'mech': [], 'case': case, 'step': step, 'msg': msg})

    with Scratch('cu') as root:
        a = _ka.cache(archive=gen.build_archive(klepto, case['backend'], root))
        log = []
        deco = getattr(klepto, case['algo'] + '_cache')(maxsize=case['maxsize'], cache=a, purge=case['purge'],
                                                        keymap=gen.build_keymap(klepto, case['keymap']))

        scalar = case['backend']['kind'] == 'sql'     # (the sqlite fallback stores scalars only)

        def want(x):
            if scalar:
                return x if isinstance(x, Unstorable) else 'R%r' % (x,)
            return ('R', x)

        def body(x):
            log.append(x)
            return want(x)
        f = deco(body)
        c = f.__cache__()
        retr = {}          # key -> result: computed by a call that returned, never cleared
        note('c07_unstorable_cases')
        for n, op in enumerate(case['calls']):
            mem_bad = any(isinstance(v[-1] if isinstance(v, tuple) else v, Unstorable) for v in dict.values(c))
            if op[0] == 'dump':
                try:
                    f.dump()
                    raised = None
                except Exception as e:
                    raised = e
                x = k = None
            else:
                x = Unstorable(op[1]) if op[0] == 'u' else op[1]
                k = f.key(x)
                n0 = len(log)
                try:
                    r = f(x)
                    raised = None
                except Exception as e:
                    raised = e
                if raised is None:
                    if r != want(x):
                        return viol, cnt        # (colliding keys: another subject)
                    retr[k] = r
                    if op[0] == 'u':
                        note('c07_unstorable_results_returned')
            mem_bad = mem_bad or op[0] == 'u'
            if raised is not None:
                if not mem_bad:
                    note('c07_unstorable_unexpected_raise')
                    if os.environ.get('KV_DEBUG'):
                        import traceback; traceback.print_exception(type(raised), raised, raised.__traceback__); print(case)
                    return viol, cnt            # klepto failing on storable data is C01's subject, not this leg's
                note('c07_unstorable_purges_that_raised')
            mem = dict(dict.items(c))
            try:
                arch = dict(c.archive.items())
            except Exception:
                note('c07_unstorable_archive_unreadable')
                return viol, cnt
            for rk, rv in retr.items():
                note('c07_unstorable_retrievability_checks')
                if rk in mem:
                    if not (mem[rk] == rv):
                        bad('resident-result-changed', 'step %d: memory[%r] is %r, the function returned %r'
                            % (n, rk, mem[rk], rv), n)
                        return viol, cnt
                elif rk not in arch:
                    bad('result-lost-when-archive-refused-a-value',
                        'step %d (%s%s): the result for key %r was computed by a completed call, never cleared, and is now in '
                        'neither the cache nor its archive; the cache holds an un-serializable result, so the purge '
                        'could not have archived everything it dropped'
                        % (n, op[0], ' raised %s' % type(raised).__name__ if raised is not None else '', rk), n)
                    return viol, cnt
                elif not (arch[rk] == rv):
                    bad('archived-result-changed', 'step %d: archive[%r] is %r, the function returned %r'
                        % (n, rk, arch[rk], rv), n)
                    return viol, cnt
        if cwd_or_gone() != cwd0:
            os.chdir(cwd0)
    return viol, cnt


def stacked_case(rng, prop):
    """a klepto cache applied to a function that is already memoized by klepto - directly (a small fast cache in front
    of an archived one) or through a functools.wraps wrapper around it.  The outer function is a decorated function like
    any other: its info()/key()/lookup()/__cache__() are about *its* calls and *its* cache."""
    flat = [k for k in gen.keymap_cfgs() if k['flat'] and not k.get('outer')]
    case = {'stacked': True, 'prop': prop, 'via': rng.choice(['direct', 'wraps', 'wraps-plain']),
            'outer': {'algo': rng.choice(['inf', 'lru', 'lfu', 'mru', 'rr']), 'safe': rng.random() < 0.3, 'keymap': rng.choice(flat)},
            'inner': {'algo': rng.choice(['inf', 'lru', 'lfu', 'mru', 'rr', 'no']), 'safe': rng.random() < 0.3,
                      'keymap': rng.choice(flat), 'maxsize': rng.choice([1, 3, 1000])},
            'calls': [rng.randrange(6) for _ in range(rng.choice([8, 16, 30]))]}
    return run_stacked(case)


def run_stacked(case):
    import functools
    viol = []
    prop = case['prop']

    def bad(kind, msg, n):
        viol.append({'property': prop, 'kind': kind, 'mech': [], 'case': case, 'step': n, 'msg': msg})

    def deco(c, maxsize):
        mod = klepto.safe if c['safe'] else klepto
        kw = {'keymap': gen.build_keymap(klepto, c['keymap'])}
        if c['algo'] not in ('inf', 'no'):
            kw['maxsize'] = maxsize
        return getattr(mod, c['algo'] + '_cache')(**kw)
    log = []

    def body(x):
        log.append(x)
        return ('R', x)
    if case['via'] == 'wraps-plain':
        inner = None                      # control: a wraps-wrapper around an undecorated function
        base = body
    else:
        inner = deco(case['inner'], case['inner']['maxsize'])(body)
        base = inner
    if case['via'] == 'direct':
        target = base
    else:
        @functools.wraps(base)
        def target(*a, **k):
            return base(*a, **k)
    outer = deco(case['outer'], 1000)(target)
    name = '%s%s_cache over %s' % ('safe.' if case['outer']['safe'] else '', case['outer']['algo'],
                                   {'direct': 'a klepto-cached function', 'wraps': 'a functools.wraps wrapper of a klepto-cached function',
                                    'wraps-plain': 'a functools.wraps wrapper of a plain function'}[case['via']])
    if inner is not None:
        for attr in ('info', 'key', 'lookup', '__cache__', 'clear', 'load', 'dump'):
            if getattr(outer, attr, None) is getattr(inner, attr, None):
                bad('outer-interface-is-the-inner-functions', '%s: outer.%s is the inner function\'s %s - it reports on / acts on '
                    'the inner cache, not on the calls made through the outer function' % (name, attr, attr), -1)
                return viol
    seen = set()
    for n, x in enumerate(case['calls']):
        i0 = tuple(outer.info())
        r = outer(x)
        i1 = tuple(outer.info())
        if r != ('R', x):
            return viol          # (colliding keys would be another subject)
        want = (1, 0, 0) if x in seen else (0, 1, 0)
        seen.add(x)
        d = tuple(i1[j] - i0[j] for j in range(3))
        if prop == 'C15':
            if d != want:
                bad('stacked-counter-delta', '%s: call %d (x=%r, %s through the outer function) moved the outer info() by %r, '
                    'expected %r' % (name, n, x, 'seen before' if want[0] else 'new', d, want), n)
                return viol
            if i1[4] != len(seen):
                bad('stacked-size', '%s: outer info().size=%r after %d distinct calls (nothing evicted)' % (name, i1[4], len(seen)), n)
                return viol
        else:
            c = outer.__cache__()
            try:
                k = outer.key(x)
                ok = k in c and c[k] == r and outer.lookup(x) == r
            except Exception as e:
                ok = False
                k = 'raised %s' % type(e).__name__
            if not ok or len(c) != len(seen):
                bad('stacked-key-lookup-incoherent', '%s: after outer(%r) the outer key()/lookup()/__cache__() do not describe the '
                    'entry the call created (key %s; cache holds %d entries, %d distinct calls made)'
                    % (name, x, srepr(k)[:80], len(c), len(seen)), n)
                return viol
    return viol


def directed_cases(prop):
    """hand-written witnesses of the recorded findings (same runner, same monitors): they keep the
    KNOWN-FINDING lines on every run and simply pass once a defect is repaired"""
    km_s = {'cls': 'stringmap', 'type': None, 'flat': True, 'typed': False, 'sentinel': True}
    out = []
    if prop in ('C01', 'C02', 'C07', 'C15'):
        calls = [['call', ['a-b'], {}], ['call', ['a_b'], {}], ['call', ['a-b'], {}], ['call', ['a_b'], {}],
                 ['call', [1], {}], ['call', ['1'], {}], ['call', [1], {}],
                 # ... and with another call in between, so that the alias is looked up while only its partner is archived
                 ['call', ['a-b'], {}], ['call', ['x'], {}], ['call', ['a_b'], {}], ['call', ['x'], {}], ['call', ['a-b'], {}]]
        out.append({'cfg': {'algo': 'lru', 'safe': False, 'maxsize': 1, 'maxsize_positional': False, 'purge': False,
                            'keymap': dict(km_s, cls='picklemap'), 'backend': {'kind': 'dir', 'serialized': True, 'protocol': None}},
                    'sig': 'x', 'ops': calls, 'seed': 1, 'focus': prop, 'directed': True})
    if prop == 'C01':
        out.append({'cfg': {'algo': 'inf', 'safe': False, 'maxsize': None, 'maxsize_positional': False, 'purge': False,
                            'keymap': km_s, 'backend': {'kind': 'dict_archive'}},
                    'sig': '*args', 'ops': [['call', [1], {}], ['call', ['1'], {}]], 'seed': 1, 'focus': prop,
                    'directed': True})
    return out


def run_shard(prop, tier, seed, shard, nshards, opts):
    n_total = opts.get('cases', 3000)
    budget = opts.get('budget_s', 60)
    t0 = time.time()
    res = {'cases': 0, 'digests': [], 'counters': {}, 'samples': [], 'violations': [],
           'cells': {}, 'anchors': {}, 'notes': []}
    from kv import reach
    mon = reach.Reach()
    mon.start()
    if shard == 0:
        for case in directed_cases(prop):
            r, viol = run_case(case, prop)
            res['cases'] += 1
            res['counters']['directed_cases'] = res['counters'].get('directed_cases', 0) + 1
            res['violations'].extend(viol)
    i = shard
    nt = NONTRIVIAL[prop]
    while i < n_total and time.time() - t0 < budget:
        rng = gen.make_rng('cachemon', prop, seed, i)
        if prop == 'C15' and i % 16 == 3:
            viol = sibling_stats_case(rng)
            res['cases'] += 1
            res['counters']['c15_sibling_function_cases'] = res['counters'].get('c15_sibling_function_cases', 0) + 1
            res['violations'].extend(viol[:3])
            i += nshards
            continue
        if prop in ('C15', 'C18') and i % 16 == 11:
            viol = stacked_case(rng, prop)
            res['cases'] += 1
            res['counters']['stacked_decorator_cases'] = res['counters'].get('stacked_decorator_cases', 0) + 1
            res['violations'].extend(viol[:3])
            i += nshards
            continue
        if prop == 'C07' and i % 16 == 5:
            viol, cnt = run_unstorable(unstorable_case(rng))
            res['cases'] += 1
            for k, v in cnt.items():
                res['counters'][k] = res['counters'].get(k, 0) + v
            res['violations'].extend(viol[:3])
            i += nshards
            continue
        if prop in REC_PROPS and i % 8 == 7:
            # re-entrant histories: the probe calls itself through the wrapper (recmon)
            from kv import recmon
            case = recmon.gen_case(rng, prop)
            r, viol = recmon.run_case(case, prop)
            res['cases'] += 1
            for k, v in r.cnt.items():
                res['counters'][k] = res['counters'].get(k, 0) + v
            for v in viol:
                if len(res['violations']) < 200:
                    res['violations'].append(v)
            i += nshards
            continue
        case = gen_case(rng, prop)
        case['selftest'] = (i % 10 == 0)
        r, viol = run_case(case, prop)
        res['cases'] += 1
        for k, v in r.cnt.items():
            res['counters'][k] = res['counters'].get(k, 0) + v
        cell = '%s%s/%s' % ('safe.' if case['cfg']['safe'] else '', case['cfg']['algo'],
                            gen.backend_name(case['cfg']['backend']))
        res['cells'][cell] = res['cells'].get(cell, 0) + 1
        if nt(r):
            res['digests'].append(digest([case['cfg'], case['sig'], case['ops']]))
            if len(res['samples']) < 2:
                res['samples'].append({'cfg': case['cfg'], 'sig': case['sig'], 'ops': case['ops'][:12],
                                       'n_ops': len(case['ops'])})
        for v in viol:
            if len(res['violations']) < 200:
                res['violations'].append(v)
        i += nshards
    mon.stop()
    res['anchors'] = mon.anchors()
    if MonCache._kv_errors:
        res['notes'].append('monitor errors: %r' % MonCache._kv_errors[:3])
    return res


def replay(v, prop):
    case = v['case']
    if case.get('sibling'):
        return run_sibling(case)
    if case.get('unstorable'):
        return run_unstorable(case)[0]
    if case.get('stacked'):
        return run_stacked(case)
    if case.get('rec'):
        from kv import recmon
        r, viol = recmon.run_case(case, prop)
    else:
        r, viol = run_case(case, prop)
    return [x for x in viol if x['property'] == prop]


# =========================================================================================
# C20: a dill round trip of the decorated function resumes where the original was

def gen_case_c20(rng):
    for _ in range(200):
        sig = rng.choice(gen.SIGS)
        b = dict(rng.choice([x for x in gen.BACKENDS if x['kind'] in ('dict', 'null', 'dict_archive', 'file', 'dir')]))
        if b['kind'] in ('dict_archive', 'file', 'dir') and rng.random() < 0.15:
            b['direct'] = True
        km = rng.choice(gen.keymap_cfgs())
        if not gen.km_info_preserving(km, sig):
            continue
        kk = gen.key_kind(km)
        if not gen.backend_accepts(b, kk, km) or (kk == 'raw' and not km['flat']):
            continue
        break
    algo = rng.choice(ALGOS + list(BOUNDED))
    cfg = {'algo': algo, 'safe': rng.random() < 0.4, 'maxsize': rng.choice([1, 2, 3, 5]),
           'maxsize_positional': rng.random() < 0.5, 'purge': rng.random() < 0.35,
           'keymap': km, 'backend': b}
    if rng.random() < 0.3:
        cfg['tol'] = rng.choice([0, 1]); cfg['deep'] = rng.random() < 0.5
        if b.get('direct') and b['kind'] == 'dir':
            b.pop('direct')        # (see gen_case: rounded ==-equal keys of different type)
    elif rng.random() < 0.15:
        cfg['deep'] = True
    names = [n for kd, n in gen.sig_names(sig) if kd == 'pos']
    if names and rng.random() < 0.25 and gen.backend_accepts(b, gen.key_kind(km), dict(km, sentinel=True)):
        cfg['ignore'] = enc([rng.choice(names)])    # klepto's NULL marker object sits inside raw keys
    if algo not in BOUNDED:
        cfg['maxsize'] = 0 if algo == 'no' else None
    universe = [u for u in gen.UNIVERSE if not (b['kind'] == 'dir' and u in ('a_b', '1'))]
    ms = effective_maxsize(cfg) or 3
    pool = []
    while len(pool) < min(len(universe), ms + rng.choice([2, 3, 4])):
        c = gen.gen_call(rng, sig, universe)
        if c not in pool:
            pool.append(c)
    pre = gen_history(rng, 'C20', cfg, pool, rng.choice([0, 3, 8, 15, 30]), ms)
    if b['kind'] not in ('dict', 'null') and not b.get('direct') and rng.random() < 0.4:
        pre.insert(rng.randrange(len(pre) + 1), ['dump'])
    cont = gen_history(rng, 'C20', cfg, pool, max(12, 4 * ms), ms)
    return {'cfg': cfg, 'sig': sig, 'ops': pre, 'cont': cont, 'seed': rng.randrange(1 << 30),
            'focus': 'C20', 'fresh': [enc(x) for x in gen.gen_call(rng, sig, ['zz', 77, 'fresh'])]}


def pickled_key_identity_mech(cfg, x, y):
    """witness-derived: the two observations hold *different key bytes that unpickle to equal keys* (same
    number of entries, equal decoded key sets) under picklemap with a serializer - the recorded dependence of
    pickled keys on object identity (pickle's memo), which differs between interpreter processes"""
    km = cfg['keymap']
    if km['cls'] != 'picklemap' or km['type'] is None:
        return []
    import ast
    import dill

    def decoded(names):
        out = []
        for n in names:
            b = ast.literal_eval(n)
            out.append(repr(dill.loads(b)))
        return sorted(out)
    try:
        # the diverging call itself got different key bytes in the two processes, and both decode to equal keys
        if x.get('k') and y.get('k') and x['k'] != y['k'] and decoded([x['k']]) == decoded([y['k']]):
            return ['picklemap-key-depends-on-object-identity']
    except Exception:
        pass
    return []


def _copy_store(src, dst):
    import shutil
    if os.path.isdir(dst):
        shutil.rmtree(dst)
    shutil.copytree(src, dst)


def run_case_c20(case):
    import dill
    viol = []
    cnt = {}

    def bad(kind, msg):
        viol.append({'property': 'C20', 'kind': kind, 'msg': msg[:600], 'mech': [], 'case': case})
    with Scratch('c20') as root:
        a = os.path.join(root, 'a')
        os.makedirs(a)
        r = Runner(case, a, moncache=False, monitors=False)
        r.run()
        if r.construct_error is not None or any(o and o.get('abort') for o in r.obs):
            return r, viol, cnt
        f = r.f
        try:
            g = dill.loads(dill.dumps(f))
        except Exception as e:
            bad('not-picklable', 'dill round trip of the decorated function failed: %s: %s'
                % (type(e).__name__, str(e)[:200]))
            return r, viol, cnt
        cnt['c20_roundtrips'] = 1
        blob_path = None
        if case.get('xproc'):
            # the serialised function as a *different interpreter process* will find it (written now, before
            # the original moves on)
            blob_path = os.path.join(root, 'f.dill')
            with open(blob_path, 'wb') as fh:
                dill.dump(f, fh)
        if g is f or g.__wrapped__ is f.__wrapped__:
            cnt['c20_by_reference'] = 1   # would make the comparison vacuous
            return r, viol, cnt
        mf, mg = gen.contents(f.__cache__()), gen.contents(g.__cache__())
        if mf != mg or [skey(k) for k in mf] != [skey(k) for k in mg]:
            bad('clone-cache-differs', 'clone memory %r != original %r' % (sorted(map(skey, mg)), sorted(map(skey, mf))))
        if tuple(f.info()) != tuple(g.info()):
            bad('clone-info-differs', 'clone info %r != original %r' % (tuple(g.info()), tuple(f.info())))
        if repr(f.__map__()) != repr(g.__map__()) or f.__mask__() != g.__mask__():
            bad('clone-config-differs', 'clone keymap/mask %r/%r != %r/%r'
                % (g.__map__(), g.__mask__(), f.__map__(), f.__mask__()))
        if bool(f.archived()) != bool(g.archived()):
            bad('clone-config-differs', 'clone archived()=%r, original %r' % (g.archived(), f.archived()))
        cont = dict(case); cont['ops'] = case['cont']
        persistent = gen.persistent(case['cfg']['backend'])
        if persistent:
            _copy_store(a, os.path.join(root, 'snap'))
        rf = Runner(cont, a, moncache=False, monitors=False, adopt=f)
        rf.op_offset = 1000
        rf.run()
        if persistent:
            # both continue from the same stored state: a persistent archive is shared storage
            _copy_store(os.path.join(root, 'snap'), a)
        rg = Runner(cont, a, moncache=False, monitors=False, adopt=g)
        rg.op_offset = 1000
        rg.run()
        cnt['c20_lockstep_steps'] = len(rf.obs)
        v2 = []
        compare_obs(rf.obs, rg.obs, set(), 'clone-diverged', 'C20', case, v2)
        viol.extend(v2)
        if blob_path is not None and not v2:
            # restored in another process: no object (marker singletons, module state) is shared with the original
            if persistent:
                _copy_store(os.path.join(root, 'snap'), a)
            import json, subprocess
            from kv.common import child_env, PY
            job = {'case': cont, 'root': a, 'pickle': blob_path, 'out': os.path.join(root, 'xproc.json')}
            with open(os.path.join(root, 'xjob.json'), 'w') as fh:
                json.dump(job, fh)
            try:
                p = subprocess.run([PY, '-m', 'kv.cachemon', os.path.join(root, 'xjob.json')], env=child_env(),
                                   cwd=root, timeout=120, stdout=subprocess.PIPE, stderr=subprocess.STDOUT)
                ok = p.returncode == 0 and os.path.exists(job['out'])
            except subprocess.TimeoutExpired:
                ok = False
                p = None
            if not ok:
                bad('clone-not-restorable-in-another-process',
                    'restoring the pickled function in a fresh interpreter failed: %s'
                    % ((p.stdout.decode('utf-8', 'replace')[-300:]) if p is not None else 'timeout'))
            else:
                with open(job['out']) as fh:
                    xobs = json.load(fh)
                cnt['c20_cross_process_restores'] = 1
                v3 = []
                compare_obs(json.loads(json.dumps(rf.obs, default=repr)), xobs, set(), 'clone-in-other-process-diverged',
                            'C20', case, v3)
                for v in v3:
                    v['mech'] = pickled_key_identity_mech(case['cfg'], *v['obs_pair'])
                viol.extend(v3)
        ev = sum(1 for o in rf.obs if o and o.get('op') == 'call') and (rf.obs[-1]['info'][1] if rf.obs else 0)
        if any(o and len(o.get('mem', [])) for o in rf.obs) and case['cfg']['algo'] in BOUNDED:
            pass
        # independence of the in-memory state
        fa, fk = dec(case['fresh'][0]), dec(case['fresh'][1])
        mg0, ig0 = gen.contents(g.__cache__()), tuple(g.info())
        try:
            f.clear()
            f(*fa, **fk)
        except Exception:
            pass
        if not case['cfg']['backend'].get('direct'):
            if gen.contents(g.__cache__()) != mg0 or tuple(g.info()) != ig0:
                bad('clone-not-independent', 'clearing/calling the original changed the clone: %r -> %r, info %r -> %r'
                    % (sorted(map(skey, mg0)), sorted(map(skey, gen.contents(g.__cache__()))), ig0, tuple(g.info())))
            cnt['c20_independence_checks'] = 1
        r.obs_cont = rf.obs
        return r, viol, cnt


def run_shard_c20(prop, tier, seed, shard, nshards, opts):
    n_total = opts.get('cases', 1500)
    budget = opts.get('budget_s', 60)
    t0 = time.time()
    res = {'cases': 0, 'digests': [], 'counters': {}, 'samples': [], 'violations': [],
           'cells': {}, 'anchors': {}, 'notes': []}
    i = shard
    while i < n_total and time.time() - t0 < budget:
        rng = gen.make_rng('cachemon', 'C20', seed, i)
        case = gen_case_c20(rng)
        case['xproc'] = (i % 4 == 1)
        r, viol, cnt = run_case_c20(case)
        res['cases'] += 1
        for k, v in cnt.items():
            res['counters'][k] = res['counters'].get(k, 0) + v
        cell = '%s%s/%s' % ('safe.' if case['cfg']['safe'] else '', case['cfg']['algo'],
                            gen.backend_name(case['cfg']['backend']))
        res['cells'][cell] = res['cells'].get(cell, 0) + 1
        oc = getattr(r, 'obs_cont', None) or []
        sizes = [len(o['mem']) for o in oc if o]
        evicted = any(sizes[j] <= sizes[j - 1] and oc[j].get('cls') in ('miss', 'load')
                      for j in range(1, len(sizes)) if oc[j] and oc[j].get('op') == 'call')
        if cnt.get('c20_roundtrips') and evicted and len(case['ops']) > 0:
            res['counters']['c20_continuations_with_eviction'] = res['counters'].get('c20_continuations_with_eviction', 0) + 1
            res['digests'].append(digest([case['cfg'], case['sig'], case['ops'], case['cont']]))
            if len(res['samples']) < 2:
                res['samples'].append({'cfg': case['cfg'], 'sig': case['sig'], 'prefix': case['ops'][:8],
                                       'continuation': case['cont'][:8]})
        res['violations'].extend(viol[:5])
        i += nshards
    return res


def _c20_child(path):
    import json
    import dill
    with open(path) as fh:
        job = json.load(fh)
    with open(job['pickle'], 'rb') as fh:
        h = dill.load(fh)
    rh = Runner(job['case'], job['root'], moncache=False, monitors=False, adopt=h)
    rh.op_offset = 1000
    rh.run()
    with open(job['out'], 'w') as fh:
        json.dump(rh.obs, fh, default=repr)


_run_shard_generic = run_shard


def run_shard(prop, tier, seed, shard, nshards, opts):
    if prop == 'C20':
        return run_shard_c20(prop, tier, seed, shard, nshards, opts)
    return _run_shard_generic(prop, tier, seed, shard, nshards, opts)


_replay_generic = replay


def replay(v, prop):
    if prop == 'C20':
        return run_case_c20(v['case'])[1]
    return _replay_generic(v, prop)


if __name__ == '__main__':
    _c20_child(sys.argv[1])
