"""valmon: klepto.validate / klepto.isvalid against Python's own argument binding (C19).

For generated callables (functions, bound methods, callable instances, functools.partial objects)
and generated argument lists, the oracle is *actually calling* a side-effect-free stub with the
same signature (a TypeError raised before the body runs = binding failure), cross-checked with
inspect.signature().bind. isvalid must equal the oracle, validate must raise TypeError exactly
when the oracle fails, and neither may call the inspected callable.
"""
import functools
import inspect
import time

from kv import gen
from kv.common import digest, import_klepto
from kv.gen import enc, dec
from kv.keymon import gen_spec, spec_src, spec_names

klepto = import_klepto()
from klepto import _inspect as KI  # noqa: E402


class Callable(object):
    def __init__(self, spec, kind, partial=None, wspec=None):
        self.spec, self.kind = spec, kind
        D = dict((n, dec(v)) for n, v in spec['def'])
        D.update((n, dec(v)) for n, has, v in spec['kwonly'] if has)
        if wspec is not None:
            for n, v in wspec['def']:
                D.setdefault(n, dec(v))
            for n, has, v in wspec['kwonly']:
                if has:
                    D.setdefault(n, dec(v))
        self.ns = {'__name__': '__kvstub__', '_CALLS': [], '_D': D}
        sig = spec_src(spec, self_first=(kind in ('method', 'instance', 'classmethod', 'classmethod_via_instance', 'method_of_falsy_instance', 'instance_with_name', 'instance_with_args')))
        if kind in ('method', 'method_of_falsy_instance'):
            # (an instance that is "empty" - it has __len__() == 0 - is still an instance)
            extra = '    def __len__(self):\n        return 0\n' if kind == 'method_of_falsy_instance' else ''
            src = 'class C(object):\n%s    def m(%s):\n        _CALLS.append(1)\n' % (extra, sig)
            exec(src, self.ns)
            self.obj = self.ns['C']().m
        elif kind == 'instance_static_call':
            src = 'class C(object):\n    @staticmethod\n    def __call__(%s):\n        _CALLS.append(1)\n' % sig
            exec(src, self.ns)
            self.obj = self.ns['C']()
        elif kind in ('instance', 'instance_with_name', 'instance_with_args'):
            src = 'class C(object):\n    def __call__(%s):\n        _CALLS.append(1)\n' % sig
            exec(src, self.ns)
            self.obj = self.ns['C']()
            if kind == 'instance_with_name':
                # what functools.update_wrapper(self, func) does to a class-based decorator object
                self.obj.__name__ = 'wrapped_name'
                self.obj.__doc__ = 'doc'
            if kind == 'instance_with_args':
                # attributes named like a functools.partial's, on something that is not one (every exception has .args)
                self.obj.args = (1, 2)
                if spec['kw']:
                    self.obj.keywords = {'zz': 1}
        elif kind in ('classmethod', 'classmethod_via_instance'):
            src = 'class C(object):\n    @classmethod\n    def m(%s):\n        _CALLS.append(1)\n' % sig
            exec(src, self.ns)
            self.obj = self.ns['C'].m if kind == 'classmethod' else self.ns['C']().m
        elif kind == 'staticmethod':
            src = 'class C(object):\n    @staticmethod\n    def m(%s):\n        _CALLS.append(1)\n' % sig
            exec(src, self.ns)
            self.obj = self.ns['C']().m
        elif kind in ('async', 'generator', 'lambda'):
            # still plain Python functions: binding happens at the call, the body does not run
            if kind == 'lambda':
                src = 'P = lambda %s: _CALLS.append(1)\n' % sig
            else:
                src = '%sdef P(%s):\n    _CALLS.append(1)\n%s' % ('async ' if kind == 'async' else '', sig,
                                                                 '    yield\n' if kind == 'generator' else '')
            exec(src, self.ns)
            self.obj = self.ns['P']
        elif kind == 'wrapped':
            # a functools.wraps wrapper: its *own* parameter list decides binding, whatever it wraps
            src = ('def INNER(%s):\n    _CALLS.append(1)\n'
                   'def P(%s):\n    _CALLS.append(1)\n' % (spec_src(wspec), sig))
            exec(src, self.ns)
            self.obj = functools.wraps(self.ns['INNER'])(self.ns['P'])
        else:
            src = 'def P(%s):\n    _CALLS.append(1)\n' % sig
            exec(src, self.ns)
            self.obj = self.ns['P']
        self.pa, self.pk = (), {}
        self.base = self.obj
        if partial is not None:
            self.pa = tuple(dec(partial['args']))
            self.pk = dec(partial['kwds'])
            self.obj = functools.partial(self.obj, *self.pa, **self.pk)
            if partial.get('outer'):
                # a partial of a partial (functools flattens it; the fixed arguments accumulate)
                oa, ok = tuple(dec(partial['outer']['args'])), dec(partial['outer']['kwds'])
                self.obj = functools.partial(self.obj, *oa, **ok)
                self.pa = self.pa + oa
                self.pk = dict(self.pk, **ok)

    @property
    def calls(self):
        return self.ns['_CALLS']

    def real(self, args, kwds):
        """does obj(*args, **kwds) get past binding?  (calls the stub: it has no effects)"""
        n0 = len(self.calls)
        try:
            r = self.obj(*args, **kwds)
            if hasattr(r, 'close'):
                r.close()          # a coroutine / generator that is never run
            ok = True
        except TypeError:
            ok = len(self.calls) > n0
        del self.calls[n0:]
        return ok

    def bind(self, args, kwds):
        try:
            inspect.signature(self.obj, follow_wrapped=False).bind(*args, **kwds)
            return True
        except (TypeError, ValueError):   # ValueError: a partial that can never be called
            return False


VALS = [1, 'a', None, 2.5, (1, 2)]


def gen_case(rng, prop='C19'):
    kind = rng.choice(['func', 'func', 'method', 'instance', 'func', 'func', 'method', 'instance',
                       'classmethod', 'classmethod_via_instance', 'staticmethod', 'wrapped', 'async', 'generator', 'lambda',
                       'method_of_falsy_instance', 'instance_with_name', 'instance_static_call', 'instance_with_args'])
    # (a plain function may call its first parameter what validate/isvalid call theirs)
    spec = gen_spec(rng, hostile_names=(['func', 'kwds'] if kind == 'func' else None))
    case = {'spec': spec, 'kind': kind, 'seed': rng.randrange(1 << 30)}
    if kind == 'wrapped':
        case['wspec'] = gen_spec(rng)
        if rng.random() < 0.5:     # the classic decorator shape: (*args, **kwargs) or (*args) around anything
            case['spec'] = spec = {'req': [], 'def': [], 'var': True, 'kwonly': [], 'kw': rng.random() < 0.6}
    names = spec_names(spec)
    if rng.random() < 0.4:
        npos = rng.randint(0, min(len(names) + 1, 5))     # up to one positional too many
        pa = [rng.choice(VALS) for _ in range(npos)]
        pk = {}
        for n in names + [x[0] for x in spec['kwonly']] + (['zz'] if spec['kw'] else []):
            if rng.random() < 0.25:
                pk[n] = rng.choice(VALS)
        if rng.random() < 0.1:
            pk['bogus'] = 1
        case['partial'] = {'args': enc(pa), 'kwds': enc(pk)}
        if rng.random() < 0.15:
            case['partial']['outer'] = {'args': enc([rng.choice(VALS) for _ in range(rng.randint(0, 2))]),
                                        'kwds': enc(dict((n, rng.choice(VALS)) for n in names if rng.random() < 0.2))}
    return case


def gen_calls(rng, spec, n=14, defaults=None, fixed=0, pk=()):
    """argument lists: half drawn blindly (mostly invalid), half a *valid* spelling of a full assignment, itself
    perturbed half of the time by one edit (a required argument dropped, one positional too many, a keyword
    that repeats a positional, an unknown keyword) - the boundary between binding and not binding"""
    from kv.keymon import assignment, spell
    names = spec_names(spec)
    kwnames = names + [x[0] for x in spec['kwonly']] + ['zz', 'bogus']
    out = []
    for _ in range(n):
        if defaults is not None and rng.random() < 0.5:
            sp = dict(spec)
            if pk:
                sp['kwonly'] = [x for x in spec['kwonly'] if x[0] not in pk]
                sp['_pk'] = sorted(pk)
            asg = assignment(rng, sp, VALS)
            for nme in list(asg['pos']):
                if nme in pk or nme in names[:fixed]:
                    del asg['pos'][nme]
            asg['defaulted'] = [nme for nme in asg['defaulted'] if nme not in pk]
            try:
                args, kwds = spell(rng, sp, asg, defaults, fixed)
            except Exception:
                continue
            args, kwds = list(args), dict(kwds)
            edit = rng.choice(['none', 'none', 'drop-pos', 'drop-kw', 'extra-pos', 'dup-kw', 'unknown-kw'])
            if edit == 'drop-pos' and args:
                args.pop()
            elif edit == 'drop-kw' and kwds:
                kwds.pop(rng.choice(sorted(kwds)))
            elif edit == 'extra-pos':
                args.append(rng.choice(VALS))
            elif edit == 'dup-kw' and names[fixed:]:
                kwds[rng.choice(names[fixed:])] = rng.choice(VALS)
            elif edit == 'unknown-kw':
                kwds['bogus'] = 1
            out.append((args, kwds))
            continue
        npos = rng.randint(0, len(names) + 2)
        args = [rng.choice(VALS) for _ in range(npos)]
        kwds = {}
        for nme in kwnames:
            if rng.random() < 0.3:
                kwds[nme] = rng.choice(VALS)
        out.append((args, kwds))
    return out


def mechs(case, tgt, args, kwds):
    """witness-derived classification of the recorded weakness of klepto.validate: for a partial of a
    *bound* callable (bound method / callable instance) with positionally fixed arguments, klepto's
    signature() pairs the fixed values with a parameter list that still contains 'self' (shifted by
    one), so a clash between a positionally fixed parameter and a keyword goes unnoticed.  The
    witness must show exactly that: Python rejects the call with "multiple values for argument"."""
    if case['kind'] in ('method', 'instance', 'classmethod', 'classmethod_via_instance', 'method_of_falsy_instance', 'instance_with_name', 'instance_with_args') and tgt.pa:
        try:
            tgt.obj(*args, **kwds)
        except TypeError as e:
            if 'multiple values' in str(e):
                return ['validate-partial-of-bound-callable-offset']
        except Exception:
            pass
    return []


def run_case(case, prop='C19'):
    rng = gen.make_rng('valmon-run', case['seed'])
    viol, cnt = [], {}

    def note(c, n=1):
        cnt[c] = cnt.get(c, 0) + n
    try:
        tgt = Callable(case['spec'], case['kind'], case.get('partial'), case.get('wspec'))
    except Exception as e:
        return viol, cnt, False
    nontrivial = False
    seen_true = seen_false = False
    if case['kind'] in ('method', 'method_of_falsy_instance') and rng.random() < 0.5:
        # the same function inspected unbound first (Cls.m, with the instance as an argument): what klepto learned
        # about it must not leak into what it says about the bound method
        try:
            inst = tgt.base.__self__
            KI.isvalid(type(inst).m, inst, 1)
            KI.validate(type(inst).m, inst)
        except Exception:
            pass
        del tgt.calls[:]
        note('c19_unbound_inspected_first')
    D = dict((n, dec(v)) for n, v in case['spec']['def'])
    D.update((n, dec(v)) for n, has, v in case['spec']['kwonly'] if has)
    work = [(tgt, a, k) for a, k in gen_calls(rng, case['spec'], defaults=D, fixed=len(tgt.pa), pk=tuple(tgt.pk))]
    if tgt.pa or tgt.pk:
        # afterwards the callable the partial wraps is asked about on its own: inspecting the partial must not
        # have changed what klepto thinks of the underlying function (state kept between inspections)
        import copy as _copy
        tb = _copy.copy(tgt)
        tb.obj, tb.pa, tb.pk = tgt.base, (), {}
        work += [(tb, a, k) for a, k in gen_calls(rng, case['spec'], n=6, defaults=D)]
    full = tgt
    for tgt, args, kwds in work:
        if tgt is not full:
            note('c19_base_after_partial_checks')
        real = tgt.real(args, kwds)
        if tgt.bind(args, kwds) != real:
            # known quirk of the second oracle: inspect.signature() of a partial whose target takes **kw drops the
            # positionally fixed parameters from the signature, so a keyword naming one of them lands in **kw and
            # bind() accepts a call that Python rejects with "multiple values for argument".  The actual call is
            # the ground truth there; any other disagreement drops the case.
            quirk = False
            if not real and isinstance(tgt.obj, functools.partial):
                try:
                    tgt.obj(*args, **kwds)
                except TypeError as e:
                    quirk = 'multiple values' in str(e)
                del tgt.calls[:]
            if not quirk:
                note('oracle_disagreement_dropped')
                continue
            note('oracle_bind_quirk_resolved_by_actual_call')
        n0 = len(tgt.calls)
        try:
            got = KI.isvalid(tgt.obj, *args, **kwds)
        except Exception as e:
            got = e
        try:
            KI.validate(tgt.obj, *args, **kwds)
            vraised = None
        except TypeError as e:
            vraised = e
        except Exception as e:
            vraised = e
        called = len(tgt.calls) - n0
        del tgt.calls[n0:]
        note('c19_calls_checked')
        if real:
            seen_true = True
            note('c19_valid_calls')
        else:
            seen_false = True
            note('c19_invalid_calls')
        base = {'property': 'C19', 'case': case, 'call': [enc(args), enc(kwds)]}
        desc = '%s%s sig (%s)%s, call %r/%r' % (
            case['kind'], ' partial%r' % ((tgt.pa, tgt.pk),) if (tgt.pa or tgt.pk) else
            (' (the function itself, after its partial %r was inspected)' % ((full.pa, full.pk),) if tgt is not full else ''),
            spec_src(case['spec']), '', args, kwds)
        m = mechs(case, tgt, args, kwds)
        if called:
            v = dict(base); v.update(kind='inspected-callable-was-called', mech=[],
                                     msg='%s: isvalid/validate called the function %d times' % (desc, called))
            viol.append(v)
        if got is not real:
            v = dict(base); v.update(kind='isvalid-disagrees', mech=m,
                                     msg='%s: isvalid=%r but calling it %s' % (desc, got, 'binds' if real else 'fails to bind'))
            viol.append(v)
        if (vraised is None) != real or (vraised is not None and not isinstance(vraised, TypeError)):
            v = dict(base); v.update(kind='validate-disagrees', mech=m,
                                     msg='%s: validate %s but calling it %s' % (
                                         desc, 'raised %s' % type(vraised).__name__ if vraised is not None else 'returned',
                                         'binds' if real else 'fails to bind'))
            viol.append(v)
    return viol, cnt, (seen_true and seen_false)


RULE = 'generated callable (function/method/callable instance/partial) for which both >=1 binding and >=1 non-binding argument list were checked'


def run_shard(prop, tier, seed, shard, nshards, opts):
    n_total = opts.get('cases', 3000)
    budget = opts.get('budget_s', 40)
    t0 = time.time()
    res = {'cases': 0, 'digests': [], 'counters': {}, 'samples': [], 'violations': [],
           'cells': {}, 'anchors': {}, 'notes': []}
    from kv import reach
    mon = reach.Reach(); mon.start()
    i = shard
    while i < n_total and time.time() - t0 < budget:
        rng = gen.make_rng('valmon', seed, i)
        case = gen_case(rng)
        viol, cnt, nt = run_case(case)
        res['cases'] += 1
        for k, v in cnt.items():
            res['counters'][k] = res['counters'].get(k, 0) + v
        spec = case['spec']
        cell = '%s%s/%s%s%s' % (case['kind'], '+partial' if case.get('partial') else '',
                                'var' if spec['var'] else '-', 'kwonly' if spec['kwonly'] else '-',
                                'kw' if spec['kw'] else '-')
        res['cells'][cell] = res['cells'].get(cell, 0) + 1
        if nt:
            res['digests'].append(digest(case))
            if len(res['samples']) < 2:
                res['samples'].append({'sig': spec_src(spec), 'kind': case['kind'], 'partial': case.get('partial')})
        for v in viol:
            if len(res['violations']) < 400:
                res['violations'].append(v)
        i += nshards
    mon.stop()
    res['anchors'] = mon.anchors()
    return res


def replay(v, prop):
    viol, cnt, nt = run_case(v['case'])
    return viol
