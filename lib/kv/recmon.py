"""recmon: re-entrant call histories for the cache decorators.

The probe function of a recursive case calls *itself through the klepto wrapper* (fib / chain /
tri shapes), so calls are nested: an outer call is in progress - its key not yet stored - while
inner calls hit, load, miss, insert and evict.  Every call, nested or top-level, is made through one
harness function that snapshots the observable state before and after it, so the same boundary
monitors as in cachemon apply per call:

  C01  result == the undecorated recursion's value
  C02  the function body ran for this key iff the key was in neither memory nor the attached archive
       when the call was made (the body logs the key it was entered for)
  C05  len(memory) after the call <= max(maxsize, len before); maxsize None never loses entries
  C15  per top-level call tree: (hit, miss, load) deltas == the numbers of calls of the tree classified
       hit / miss / load at their own call time; miss delta == number of body evaluations; size field
  C07  at the end of a top-level call (archive attached throughout): every result computed so far and not
       explicitly cleared is in memory or in the archive

Monitors record; they never raise into klepto.
"""
import os
import random

from kv import gen
from kv.common import import_klepto, Scratch
from kv.gen import enc, dec

klepto = import_klepto()
import klepto.safe  # noqa: E402
from klepto import archives as _ka  # noqa: E402

BOUNDED = ('lfu', 'lru', 'mru', 'rr')
SHAPES = {'fib': (1, 2), 'chain': (1,), 'tri': (1, 2, 3), 'skip': (2, 1)}


def _h(x):
    return sum(ord(c) for c in repr(x)) % 9973


class RecProbe(object):
    """P(n, tag) -> ('R', n, tag, h(P(n-d1)), h(P(n-d2)), ...) with the nested calls going through NEST"""
    def __init__(self, shape, mode, sig):
        self.shape = SHAPES[shape]
        self.mode = mode
        self.sig = sig
        self.log = []
        self.nest = None
        self.arm = None
        ns = {'_S': self}
        src = ('def P(%s):\n'
               '    return _S.body(n, %s, True)\n'
               'def RAW(%s):\n'
               '    return _S.body(n, %s, False)\n') % (sig, 'tag' if 'tag' in sig else 'None', sig,
                                                      'tag' if 'tag' in sig else 'None')
        exec(src, ns)
        ns['__name__'] = '__kvrecprobe__'
        self.fn = ns['P']
        self.raw = ns['RAW']

    def body(self, n, tag, live):
        if live:
            self.log.append((n, tag))
        subs = []
        for d in self.shape:
            m = n - d
            if m < 0:
                continue
            if live:
                r = self.nest(m, tag)
            else:
                r = self.body(m, tag, False)
            subs.append(_h(r))
        out = ('R', n, tag) + tuple(subs)
        # some bindings map to falsy results (a cache that mistakes a stored None/0 for "absent")
        hh = sum(out[3:] or (n,)) % 7
        if hh == 0 and n % 2 == 1:
            out = None
        elif hh == 1 and n % 3 == 0:
            out = 0
        if self.mode == 'str' and out is not None and out != 0:
            out = repr(out)
        return out


class RecRunner(object):
    def __init__(self, case, root):
        self.case = case
        self.cfg = cfg = case['cfg']
        self.backend = cfg['backend']
        self.viol = []
        self.cnt = {}
        self.probe = RecProbe(case['shape'], gen.result_mode(self.backend), case['sig'])
        self.probe.nest = self.nested
        self.arch_obj = gen.build_archive(klepto, self.backend, root)
        from kv.cachemon import effective_algo, effective_maxsize
        self.algo = effective_algo(cfg)
        self.maxsize = effective_maxsize(cfg)
        self.depth = 0
        self.tree = None
        self.retr = {}
        self.detached_since_compute = False
        self.step_i = -1
        self._decorate()

    def _decorate(self):
        cfg = self.cfg
        b = self.backend
        if b.get('direct'):
            c = self.arch_obj
        elif b['kind'] == 'dict':
            c = {}
        elif b['kind'] == 'null':
            c = _ka.cache()
        else:
            c = _ka.cache(archive=self.arch_obj)
        mod = klepto.safe if cfg['safe'] else klepto
        cls = getattr(mod, cfg['algo'] + '_cache')
        kw = {'cache': c, 'keymap': gen.build_keymap(klepto, cfg['keymap'])}
        args = ()
        if cfg['algo'] in BOUNDED:
            kw['purge'] = bool(cfg['purge'])
            if cfg.get('maxsize_positional'):
                args = (cfg['maxsize'],)
            else:
                kw['maxsize'] = cfg['maxsize']
        self.f = cls(*args, **kw)(self.probe.fn)

    # -- observation ------------------------------------------------------------------------
    def mem(self):
        return gen.contents(self.f.__cache__())

    def arch(self):
        c = self.f.__cache__()
        a = getattr(c, 'archive', None)
        if a is None or a is c:
            return {}
        return gen.contents(a)

    def info(self):
        i = self.f.info()
        return (i.hit, i.miss, i.load, i.maxsize, i.size)

    def note(self, c, n=1):
        self.cnt[c] = self.cnt.get(c, 0) + n

    def violation(self, prop, kind, msg, **kw):
        v = {'property': prop, 'kind': kind, 'msg': msg[:600], 'mech': [], 'step': self.step_i,
             'case': self.case}
        v.update(kw)
        self.viol.append(v)

    # -- one call (top-level or nested) ---------------------------------------------------------
    def nested(self, n, tag):
        return self.call(n, tag)

    def call(self, n, tag):
        f = self.f
        args = (n,) if tag is None else (n, tag)
        k = f.key(*args)
        mem0 = self.mem()
        att0 = bool(f.archived())
        arch0 = self.arch() if att0 else {}
        if k in mem0:
            cls = 'hit'
        elif att0 and k in arch0:
            cls = 'load'
        else:
            cls = 'miss'
        if self.algo == 'no' and cls == 'hit':
            cls = 'load'
        nk0 = self.probe.log.count((n, tag))
        top = self.depth == 0
        if top:
            self.tree = {'hit': 0, 'miss': 0, 'load': 0, 'calls': 0, 'info0': self.info(),
                         'nlog0': len(self.probe.log), 'att_all': att0}
        tree = self.tree
        children0 = tree['calls']
        self.depth += 1
        raised = None
        result = None
        try:
            result = f(*args)
        except BaseException as e:
            raised = e
        finally:
            self.depth -= 1
        mem1 = self.mem()
        self.note('rec_calls')
        self.note('rec_calls_' + cls)
        if self.depth:
            self.note('rec_nested_calls')
        if raised is not None:
            self.violation('C01', 'call-raised', 'recursive %s call f%r (depth %d) raised %s: %s'
                           % (cls, args, self.depth, type(raised).__name__, str(raised)[:200]))
            raise _Abort()
        tree['calls'] += 1
        tree[cls] += 1
        tree['att_all'] = tree['att_all'] and bool(f.archived())
        had_children = tree['calls'] - children0 > 1
        expect = self.probe.raw(*args)
        self.note('c01_checks')
        if not (result == expect) or repr(result) != repr(expect):
            self.violation('C01', 'wrong-result', 'recursive %s call f%r returned %r, function returns %r'
                           % (cls, args, result, expect))
        self.note('c02_checks')
        n_eval = self.probe.log.count((n, tag)) - nk0
        want = 1 if cls == 'miss' else 0
        if n_eval != want:
            self.violation('C02', 'evaluations',
                           'recursive %s call f%r (depth %d; key in memory: %s; attached: %s; in archive: %s) entered '
                           'the function body for this key %d times, expected %d'
                           % (cls, args, self.depth, k in mem0, att0, k in arch0, n_eval, want))
        self.note('c05_checks')
        ms = self.maxsize
        n0, n1 = len(mem0), len(mem1)
        if ms is None:
            lost = [x for x in mem0 if x not in mem1]
            if lost:
                self.violation('C05', 'unbounded-cache-evicted', 'maxsize=None but entries disappeared during a '
                               'recursive call: %r' % lost[:4])
        elif ms == 0:
            if n1 != 0 and self.depth == 0:
                self.violation('C05', 'maxsize0-resident', 'maxsize=0 but %d entries resident after a recursive call' % n1)
        else:
            if n1 > max(ms, n0):
                self.violation('C05', 'bound-exceeded',
                               'resident %d -> %d with maxsize %d across a recursive call f%r (depth %d, %s nested calls)'
                               % (n0, n1, ms, args, self.depth, 'with' if had_children else 'no'))
            if cls != 'hit' and len(set(mem0) | {k}) > ms:
                self.note('c05_overflows')
                if not had_children and self.cfg['purge'] and att0 and n1 != 0:
                    self.violation('C05', 'purge-left-entries', 'purge overflow left %d entries resident' % n1)
        if k in mem1 and not (mem1[k] == result):
            self.violation('C18', 'resident-value-differs', 'memory[%r] = %r after a call returning %r' % (k, mem1[k], result))
        if cls == 'miss' and att0 and f.archived():
            self.retr[repr(k)] = k
        if top:
            self.finish_tree(tree, mem1)
        return result

    def finish_tree(self, tree, mem1):
        i1 = self.info()
        i0 = tree['info0']
        d = tuple(i1[j] - i0[j] for j in range(3))
        want = (tree['hit'], tree['miss'], tree['load'])
        self.note('c15_checks')
        self.note('rec_trees')
        if tree['calls'] > 1:
            self.note('rec_trees_with_nesting')
        if d != want:
            self.violation('C15', 'counter-delta',
                           'a recursive call tree of %d completed calls classified (hit,miss,load)=%r at their call '
                           'times moved the counters by %r' % (tree['calls'], want, d))
        n_eval = len(self.probe.log) - tree['nlog0']
        if d[1] != n_eval:
            self.violation('C15', 'miss-vs-evaluations', 'miss moved by %d, the function body ran %d times' % (d[1], n_eval))
        if i1[4] != len(mem1):
            self.violation('C15', 'size-mismatch', 'info().size=%r but %d entries resident' % (i1[4], len(mem1)))
        if i1[3] != self.maxsize:
            self.violation('C15', 'maxsize-mismatch', 'info().maxsize=%r, configured %r' % (i1[3], self.maxsize))
        if tree['att_all'] and not self.backend.get('direct') and self.arch_obj is not None:
            self.note('c07_boundary_checks')
            arch1 = self.arch()
            have = set(repr(x) for x in mem1) | set(repr(x) for x in arch1)
            for r in list(self.retr):
                if r not in have:
                    self.violation('C07', 'result-not-retrievable',
                                   'after a recursive call tree the result for key %s (computed, never cleared, archive '
                                   'attached) is in neither memory nor archive' % r)
                    del self.retr[r]

    # -- history ---------------------------------------------------------------------------------
    def run(self):
        for i, op in enumerate(self.case['ops']):
            self.step_i = i
            random.seed(hash((self.case.get('seed', 0), i)) & 0xffffffff)
            kind = op[0]
            try:
                if kind == 'call':
                    self.call(op[1], op[2])
                elif kind == 'dump':
                    self.f.dump()
                elif kind == 'load':
                    self.f.load()
                elif kind == 'clear':
                    self.f.clear()
                elif kind == 'archived':
                    try:
                        self.f.archived(bool(op[1]))
                    except ValueError:
                        pass
            except _Abort:
                break
            except Exception as e:
                self.violation('C01', 'management-op-raised', '%s raised %s: %s' % (kind, type(e).__name__, str(e)[:200]))
                break
            if kind != 'call':
                self._prune()     # explicit clears / whatever was dropped while detached is legitimately gone
        return self

    def _prune(self):
        have = set(repr(x) for x in self.mem()) | set(repr(x) for x in (gen.contents(self.arch_obj)
                                                                        if (self.arch_obj is not None and not self.backend.get('direct')) else {}))
        for r in list(self.retr):
            if r not in have:
                del self.retr[r]


class _Abort(Exception):
    pass


def gen_case(rng, focus):
    from kv.cachemon import pick_backend, ALGOS
    sig = rng.choice(['n', 'n, tag=0'])
    for _ in range(200):
        b = pick_backend(rng, focus)
        km = rng.choice(gen.keymap_cfgs())
        if not gen.km_info_preserving(km, sig):
            continue
        kk = gen.key_kind(km)
        if kk == 'raw' and not km['flat']:
            continue
        if gen.backend_accepts(b, kk, km):
            break
    else:
        raise RuntimeError('no compatible configuration')
    algo = rng.choice(list(BOUNDED) * 2 + ALGOS)
    maxsize = rng.choice([1, 2, 3, 3, 5, 8, 0, None])
    cfg = {'algo': algo, 'safe': rng.random() < 0.4, 'maxsize': maxsize,
           'maxsize_positional': rng.random() < 0.5, 'purge': rng.random() < 0.35, 'keymap': km, 'backend': b}
    if algo not in BOUNDED:
        cfg['maxsize'] = 0 if algo == 'no' else None
    shape = rng.choice(sorted(SHAPES))
    from kv.cachemon import effective_maxsize
    ms = effective_maxsize(cfg)
    # without (enough) memory the recursion recomputes exponentially: keep n small there
    top = 7 if (ms is not None and ms <= 2) else (9 if ms is not None and ms <= 5 else 12)
    if shape == 'tri':
        top -= 2
    has_arch = b['kind'] not in ('dict', 'null') and not b.get('direct')
    ops = []
    for _ in range(rng.choice([4, 6, 8, 12])):
        r = rng.random()
        if r < 0.15:
            ch = [['clear']]
            if has_arch:
                ch += [['dump'], ['load'], ['archived', 0], ['archived', 1], ['archived', 1]]
            ops.append(rng.choice(ch))
        else:
            ops.append(['call', rng.randrange(0, top + 1), (rng.choice([0, 1]) if 'tag' in sig else None)])
    return {'cfg': cfg, 'sig': sig, 'shape': shape, 'ops': ops, 'seed': rng.randrange(1 << 30), 'focus': focus,
            'rec': True}


class _Failed(object):
    def __init__(self, case, e):
        self.cnt = {'rec_construct_failed': 1}
        self.viol = [{'property': 'C05', 'kind': 'construct-failed', 'mech': [], 'step': -1, 'case': case,
                      'msg': 'decorating a recursive function failed: %s: %s' % (type(e).__name__, str(e)[:200])}]


def run_case(case, prop):
    from kv.common import cwd_or_gone
    cwd0 = cwd_or_gone()
    r, viol = _run_case(case, prop)
    if cwd_or_gone() != cwd0:
        viol.append({'property': prop, 'kind': 'working-directory-changed', 'mech': [], 'case': case, 'step': -1,
                     'msg': 'the history left the process in %s (it started in %s)' % (cwd_or_gone(), cwd0)})
        try:
            os.chdir(cwd0)
        except OSError:
            pass
    return r, viol


def _run_case(case, prop):
    with Scratch('rec') as root:
        try:
            r = RecRunner(case, root)
        except Exception as e:
            r = _Failed(case, e)
            return r, list(r.viol)
        r.run()
        r.note('rec_cases')
        return r, list(r.viol)
