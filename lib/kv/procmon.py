"""procmon: multi-process monitors.

C04  a fresh handle / a fresh process sees exactly what was written (+ state/copy/dill rebuilds)
C17  keys are identical in every interpreter process (hash seeds, keyword orders) and a later
     session finds archived results as loads

The parent generates jobs as JSON, child interpreters (python -m kv.procmon <job.json>) execute
them against the real klepto and report what they observed; the parent compares the reports
with a model / with each other.
"""
import copy
import json
import os
import subprocess
import sys
import time

from kv import gen
from kv.common import digest, import_klepto, Scratch, child_env, PY
from kv.gen import enc, dec, backend_name

PERSISTENT = [b for b in gen.BACKENDS if gen.persistent(b)] + [
    {'kind': 'file', 'serialized': True, 'protocol': 0},
    {'kind': 'dir', 'serialized': True, 'protocol': 4},
    {'kind': 'file', 'serialized': False, 'protocol': None, 'noext': True},   # file names given without extension
    {'kind': 'file', 'serialized': True, 'protocol': None, 'noext': True},
]


# =========================================================================================
# child side

class MainPoint(object):
    """when this module runs as the writer program (python -m kv.procmon) this class lives in __main__: the kind
    of value a script or notebook stores. A reader that is a *different program* must still get it back."""
    def __init__(self, x, y):
        self.x, self.y = x, y

    def __eq__(self, o):
        return type(o).__name__ == 'MainPoint' and (o.x, o.y) == (self.x, self.y)

    def __hash__(self):
        return hash((self.x, self.y))


def c04_value(archmon, spec):
    if isinstance(spec, dict) and '__mp__' in spec:
        return MainPoint(*spec['__mp__'])
    return archmon.make_value(spec)


def report_value(v):
    if type(v).__name__ == 'MainPoint':
        return {'__mp__': [enc(v.x), enc(v.y)]}
    if callable(v):
        try:
            return {'__fncall__': enc(v(1))}
        except Exception as e:
            return {'__fncall__': 'raised ' + type(e).__name__}
    return enc(v)


def report_contents(a):
    """[[key, value], ...] with types preserved by the encoding; or an error marker"""
    srt = lambda kv: json.dumps(kv[0], sort_keys=True, default=repr)
    rep = {}
    try:
        # the other read paths first: key listing, per-key lookup, membership, length
        ks = list(a.keys())
        look = [[enc(k), report_value(a[k])] for k in ks]
        look.sort(key=srt)
        rep['lookups'] = look
        rep['len'] = len(a)
        rep['contains'] = all(k in a for k in ks)
        rep['get'] = sorted(([enc(k), report_value(a.get(k, 'kv-missing'))] for k in ks), key=srt)
    except Exception as e:
        return {'error': 'keys/lookup path: %s: %s' % (type(e).__name__, str(e)[:200])}
    try:
        items = list(a.items())
    except Exception as e:
        return {'error': '%s: %s' % (type(e).__name__, str(e)[:200])}
    out = [[enc(k), report_value(v)] for k, v in items]
    out.sort(key=srt)
    rep['items'] = out
    try:
        list(a.keys())      # a key listing is the last thing this reader does before the next write
    except Exception as e:
        return {'error': 'keys(): %s: %s' % (type(e).__name__, str(e)[:200])}
    return rep


def child_main(path):
    klepto = import_klepto()
    from kv import archmon
    with open(path) as f:
        job = json.load(f)
    out = {}
    kind = job['job']
    if kind == 'c04-write':
        out = c04_writer(klepto, archmon, job)
    elif kind == 'c04-read':
        a = archmon.public_open(job['backend'], job['root'], False)
        out = {'contents': report_contents(a)}
    elif kind == 'c17-keys':
        out = c17_keys(klepto, job)
    elif kind == 'c17-session':
        out = c17_session(klepto, job)
    elif kind == 'c04-func':
        # (1) decorate over the archive and call (computes), (2) a *new* function on a *new* handle in the same
        # process, (3) a new process while this one is alive; the parent adds (4) a new process after exit
        one = {'cells': [job['cell']], 'shuffle_seed': 5}
        out = {'first': c17_session(klepto, one)['cells'][0],
               'same_process': c17_session(klepto, one)['cells'][0]}
        live = spawn({'job': 'c17-session', 'cells': [job['cell']], 'shuffle_seed': 5}, job['cell']['root'], 'flive',
                     env_extra=job.get('reader_env'))
        out['live_process'] = live['cells'][0] if 'cells' in live else {'child_failed': live.get('child_failed', '')[-300:]}
    with open(job['out'], 'w') as f:
        json.dump(out, f)


def spawn(job, root, name, env_extra=None, timeout=120):
    jp = os.path.join(root, name + '.job.json')
    job = dict(job)
    job['out'] = os.path.join(root, name + '.out.json')
    with open(jp, 'w') as f:
        json.dump(job, f)
    env = child_env(**(env_extra or {}))
    if job.get('job') == 'c04-read':
        # a reader is another program: its __main__ is not the writer's
        cmd = [PY, '-c', 'import sys; from kv import procmon; procmon.child_main(sys.argv[1])', jp]
    else:
        cmd = [PY, '-m', 'kv.procmon', jp]
    p = subprocess.run(cmd, env=env, cwd=root, timeout=timeout,
                       stdout=subprocess.PIPE, stderr=subprocess.STDOUT)
    if p.returncode != 0 or not os.path.exists(job['out']):
        return {'child_failed': p.stdout.decode('utf-8', 'replace')[-800:]}
    with open(job['out']) as f:
        return json.load(f)


# ---- C04 child ---------------------------------------------------------------------------------

def c04_writer(klepto, archmon, job):
    import dill
    b, root = job['backend'], job['root']
    a = archmon.public_open(b, root, False)
    obs = []
    held = {}     # key -> the (mutable) object that was stored, mutated afterwards (snapshot clause)
    for i, op in enumerate(job['ops']):
        o = op[0]
        if o == 'set':
            k, v = dec(op[1]), c04_value(archmon, dec(op[2]))
            a[k] = v
            if isinstance(v, list):
                v.append('mutated-after-store')
            elif isinstance(v, dict):
                v['mutated-after-store'] = 1
        elif o == 'update':
            a.update(dict((dec(k), c04_value(archmon, dec(v))) for k, v in op[1]))
        elif o == 'del':
            try:
                del a[dec(op[1])]
            except KeyError:
                pass
        elif o == 'pop':
            a.pop(dec(op[1]), None)
        elif o == 'clear':
            a.clear()
        elif o == 'check':
            rec = {'step': i}
            rec['same_handle'] = report_contents(a)
            rec['new_handle'] = report_contents(archmon.public_open(b, root, False))
            if op[1]:   # a reader process while this writer is alive
                rec['new_process'] = spawn({'job': 'c04-read', 'backend': b, 'root': root}, root,
                                           'live%d' % i, env_extra=job.get('reader_env')).get('contents')
            obs.append(rec)
        elif o == 'rebuild':
            rec = {'step': i, 'rebuild': {}}
            # (1) from the reported state (2) copy() (3) dill round trip
            try:
                st = a.state
                cls = type(a)
                if b['kind'] == 'sql':
                    r1 = cls(st['root'], st['id'])
                else:
                    st = dict(st)
                    name = st.pop('id')
                    r1 = cls(name, **st)
                rec['rebuild']['state'] = report_contents(r1)
                rec['rebuild']['state_settings'] = settings_of(r1) == settings_of(a)
            except Exception as e:
                rec['rebuild']['state'] = {'error': '%s: %s' % (type(e).__name__, str(e)[:160])}
            try:
                r2 = a.copy()
                rec['rebuild']['copy'] = report_contents(r2)
                rec['rebuild']['copy_settings'] = settings_of(r2) == settings_of(a)
            except Exception as e:
                rec['rebuild']['copy'] = {'error': '%s: %s' % (type(e).__name__, str(e)[:160])}
            try:
                # copy(<another name>): afterwards the original handle still writes to its own store, and the copy is
                # a snapshot that no longer follows it
                if b['kind'] == 'sql':
                    newname = 'sqlite:///%s?table=copied%d' % (os.path.join(root, 'arch.db'), i)
                elif b['kind'] == 'dir':
                    newname = os.path.join(root, 'copied%d' % i)
                else:
                    ext = '.py' if not b.get('serialized', True) else ('.json' if b.get('protocol') == 'json' else '.pkl')
                    newname = os.path.join(root, 'copied%d%s' % (i, ext))
                r4 = a.copy(newname)
                pk = 'copyprobe'
                a[pk] = 4711
                fresh = archmon.public_open(b, root, False)
                rec['rebuild']['named_copy'] = {'original_store_has_write': fresh.get(pk) == 4711,
                                                'copy_followed_original': r4.get(pk) == 4711,
                                                'original_settings_kept': settings_of(a) == settings_of(fresh)}
                a.pop(pk, None)
                for h in (fresh, r4):
                    conn = getattr(h, '_conn', None)
                    if conn is not None:
                        conn.close()
            except Exception as e:
                rec['rebuild']['named_copy'] = {'error': '%s: %s' % (type(e).__name__, str(e)[:160])}
            if b['kind'] != 'sql':
                try:
                    r3 = dill.loads(dill.dumps(a))
                    rec['rebuild']['dill'] = report_contents(r3)
                    rec['rebuild']['dill_settings'] = settings_of(r3) == settings_of(a)
                    # same store: a write through the rebuilt handle is visible through the original
                    probe_k = 'rebuildprobe'
                    r3[probe_k] = 77
                    rec['rebuild']['dill_shares_store'] = (a.get(probe_k) == 77)
                    r3.pop(probe_k, None)
                except Exception as e:
                    rec['rebuild']['dill'] = {'error': '%s: %s' % (type(e).__name__, str(e)[:160])}
            obs.append(rec)
    return {'obs': obs, 'dont_write_bytecode': sys.dont_write_bytecode}


def settings_of(a):
    st = dict(a.state)
    return json.dumps(st, sort_keys=True, default=repr)


# ---- C17 child ---------------------------------------------------------------------------------

def _disturb_process_state(klepto, km):
    """something an earlier, unrelated part of the session may have done with the same kind of keymap: a call
    whose argument cannot be keyed (a generator) through a safe decorator, which degrades to plain evaluation.
    Keys computed afterwards must not depend on it."""
    try:
        import klepto.safe
        g = klepto.safe.inf_cache(keymap=gen.build_keymap(klepto, km))(lambda *a, **k: 0)
        g((i for i in ()))
        g(x=(i for i in ()))
        try:
            g.key((i for i in ()))
        except Exception:
            pass
    except Exception:
        pass
    # ... and keymaps of the same class with *other* options were used first (another error mode, codec, serializer
    # protocol, hash algorithm): each keymap's keys depend on its own options only
    for alt in ({'kw': dict(km.get('kw') or {}, strict=False)}, {'kw': dict(km.get('kw') or {}, strict=None)},
                {'kw': dict(km.get('kw') or {}, strict=True)}, {'typed': not km['typed']}, {'flat': not km['flat'], 'sentinel': False}):
        try:
            if 'kw' in alt and km['cls'] != 'stringmap':
                continue
            other = gen.build_keymap(klepto, dict(km, **alt))
            for a in ((u'\u03a9mega', 1), ('a', 1.0), ((1, 2),)):
                try:
                    other(*a, k=a[0])
                except Exception:
                    pass
        except Exception:
            pass


def c17_keys(klepto, job):
    from kv import keymon
    import random
    rng = random.Random(job['shuffle_seed'])
    out = []
    for cell in job['cells']:
        tgt = keymon.Target(cell['spec'], cell.get('tkind', 'func'))
        case = {'keymap': cell['keymap'], 'deco': cell.get('deco', 'inf'), 'safe': cell.get('safe', False),
                'ignore': cell.get('ignore')}
        if job['shuffle_seed'] % 2 == 0:
            # process state differs between sessions: here a sibling function (same code object, other
            # defaults) has been used through klepto before the function under test
            tgt.use_elder(keymon.make_deco(case), keymon.make_keygen(case))
            _disturb_process_state(klepto, cell['keymap'])
        f = tgt.decorate(keymon.make_deco(case))
        kg = keymon.make_keygen(case)(tgt.plain)
        keys = [None] * len(cell['calls'])
        order = list(range(len(cell['calls'])))
        rng.shuffle(order)              # the calls are keyed in a different order in every process
        for ci in order:
            a, k = cell['calls'][ci]
            a, k = dec(a), dec(k)
            items = list(k.items())
            rng.shuffle(items)          # keyword order differs per process
            k = dict(items)
            try:
                keys[ci] = [repr(f.key(*a, **k)), repr(kg(*a, **k)), list(k)]
            except Exception as e:
                keys[ci] = ['raised ' + type(e).__name__, '', list(k)]
        out.append(keys)
    return {'keys': out, 'hashseed': os.environ.get('PYTHONHASHSEED'), 'probe': hash('probe')}


def c17_session(klepto, job):
    from kv import keymon, archmon
    import random
    rng = random.Random(job['shuffle_seed'])
    out = []
    for cell in job['cells']:
        b = cell['backend']
        root = cell['root']
        os.makedirs(root, exist_ok=True)
        arch = archmon.public_open(b, root, False)
        # results must be storable: sqlite / json / source-text take scalars only
        rm = gen.result_mode(b)
        tgt = keymon.Target(cell['spec'], cell.get('tkind', 'func'), rmode=('falsy' if rm == 'tuple' else rm))
        if job['shuffle_seed'] % 2 == 0:
            tgt.use_elder(keymon.make_deco({'keymap': cell['keymap'], 'deco': 'inf', 'safe': False, 'ignore': cell.get('ignore')}))
            _disturb_process_state(klepto, cell['keymap'])
        fn = tgt.plain
        mod = klepto.safe if cell.get('safe') else klepto
        cls = getattr(mod, cell['deco'] + '_cache')
        kw = {'cache': klepto.archives.cache(archive=arch), 'keymap': gen.build_keymap(klepto, cell['keymap'])}
        if cell.get('ignore'):
            kw['ignore'] = tuple(cell['ignore'])
        if cell['deco'] in ('lfu', 'lru', 'mru', 'rr'):
            kw['maxsize'] = cell.get('maxsize', 3)
            kw['purge'] = bool(cell.get('purge'))
        f = cls(**kw)(fn)
        res = [None] * len(cell['calls'])
        orders = [None] * len(cell['calls'])
        seq = list(range(len(cell['calls'])))
        rng.shuffle(seq)                 # each session makes the calls in its own order
        for ci in seq:
            a, k = cell['calls'][ci]
            a, k = dec(a), dec(k)
            items = list(k.items())
            rng.shuffle(items)
            orders[ci] = [n for n, _ in items]
            try:
                res[ci] = repr(f(*a, **dict(items)))
            except Exception as e:
                res[ci] = 'raised %s: %s' % (type(e).__name__, str(e)[:100])
        f.dump()
        i = f.info()
        out.append({'info': [i.hit, i.miss, i.load], 'evals': len(tgt.log), 'results': res, 'orders': orders})
        conn = getattr(arch, '_conn', None)
        if conn is not None:
            conn.close()
    return {'cells': out, 'hashseed': os.environ.get('PYTHONHASHSEED'), 'probe': hash('probe')}


# =========================================================================================
# parent side: C04

def gen_case_c04(rng):
    from kv import archmon
    b = dict(rng.choice(PERSISTENT + [x for x in PERSISTENT if not x.get('serialized', True)]))   # import-based readers x2
    pool = [k for k in archmon.key_pool(b, rng) if k not in ('a_b', '1')]
    if b['kind'] == 'dir':
        from kv.cachemon import dir_fname
        seen, uniq = set(), []
        for k in pool:
            fn = dir_fname(k)
            if fn not in seen:
                seen.add(fn); uniq.append(k)
        pool = uniq
    keys = rng.sample(pool, min(len(pool), rng.choice([2, 3, 5])))
    longk = [k for k in pool if isinstance(k, str) and len(k) > 200]
    if len(longk) >= 2 and rng.random() < 0.3:
        keys = [k for k in keys if k not in longk] + (longk[2:4] if (len(longk) >= 4 and rng.random() < 0.5) else longk[:2])     # two long keys that differ only at the very end
    u = archmon.Uniq()
    ops = []
    rapid = rng.random() < 0.4       # same-size rewrites in quick succession
    n = rng.choice([6, 10, 16])
    for _ in range(n):
        r = rng.random()
        k = rng.choice(keys)
        if rapid and r < 0.7:
            ops.append(['set', enc(keys[0]), enc(rng.choice([10, 11, 12, 13, 'aa', 'bb', 'cc']))])
            ops.append(['check', rng.random() < 0.15])
            continue
        pickles = b['kind'] in ('file', 'dir') and b.get('serialized', True) and b.get('protocol') != 'json'
        if r < 0.45 and pickles and rng.random() < 0.2:
            ops.append(['set', enc(k), {'__mp__': [u(), rng.choice(['a', 2.5, None])]}])    # instance of a __main__ class
        elif r < 0.45:
            ops.append(['set', enc(k), enc(archmon.value_pool(b, rng, u))])
        elif r < 0.55:
            ops.append(['update', [[enc(x), enc(archmon.value_pool(b, rng, u))] for x in rng.sample(keys, min(2, len(keys)))]])
        elif r < 0.65:
            ops.append(['del', enc(k)])
        elif r < 0.72:
            ops.append(['pop', enc(k)])
        elif r < 0.76:
            ops.append(['clear'])
        elif r < 0.93:
            ops.append(['check', rng.random() < 0.3])
        else:
            ops.append(['rebuild'])
    ops.append(['check', True])
    ops.append(['rebuild'])
    return {'backend': b, 'ops': ops, 'write_bytecode': rng.random() < 0.5, 'seed': rng.randrange(1 << 30),
            'func_cell': gen_func_cell(rng, b)}


def gen_func_cell(rng, b):
    """a decorated-function workload over backend b (clause: a decorated function re-created on the archive
    is served from it): same cell format as the C17 sessions, keymap restricted to keys b can hold"""
    for _ in range(200):
        cell = gen_cells_c17(rng, 1)[0]
        km = cell['keymap']
        kk = gen.key_kind(km)
        km_eff = dict(km, sentinel=True) if (cell.get('ignore') and kk == 'raw') else km
        if gen.backend_accepts(b, kk, km_eff):
            cell['backend'] = dict(b)
            cell['maxsize'] = rng.choice([1, 2, 3, 8])
            cell['purge'] = rng.random() < 0.4
            return cell
    return None


def model_after(ops, upto):
    """model contents (encoded report form) after executing ops[:upto]"""
    from kv import archmon
    M = {}
    for op in ops[:upto]:
        o = op[0]
        if o == 'set':
            M[json.dumps(op[1], sort_keys=True)] = (op[1], op[2])
        elif o == 'update':
            for k, v in op[1]:
                M[json.dumps(k, sort_keys=True)] = (k, v)
        elif o in ('del', 'pop'):
            M.pop(json.dumps(op[1], sort_keys=True), None)
        elif o == 'clear':
            M.clear()
    return M


def expected_report(M):
    from kv import archmon
    out = []
    for k, v in M.values():
        vv = dec(v)
        if isinstance(vv, dict) and '__fn__' in vv:
            rv = {'__fncall__': enc(1 + vv['__fn__'])}
        elif isinstance(vv, dict) and '__mp__' in vv:
            rv = {'__mp__': [enc(x) for x in vv['__mp__']]}
        else:
            rv = enc(vv)
        out.append([enc(dec(k)), rv])
    out.sort(key=lambda kv: json.dumps(kv[0], sort_keys=True, default=repr))
    return out


def stale_pyc_mech(case, where):
    """known: the import-based reader of source-text archives validates cached bytecode by
    1-second mtime + size, so a same-size rewrite within the second reads the old contents"""
    b = case['backend']
    if not b.get('serialized', True) and case.get('write_bytecode') and where in ('same_handle', 'new_handle', 'new_process', 'after_exit'):
        return ['source-reader-stale-bytecode']
    return []


def run_case_c04(case):
    viol, cnt = [], {}

    def note(c, n=1):
        cnt[c] = cnt.get(c, 0) + n

    def bad(kind, msg, mech=()):
        viol.append({'property': 'C04', 'kind': kind, 'msg': msg[:600], 'mech': list(mech), 'case': case})
    with Scratch('c04') as root:
        env = {'PYTHONDONTWRITEBYTECODE': None} if case.get('write_bytecode') else {}
        job = {'job': 'c04-write', 'backend': case['backend'], 'root': root, 'ops': case['ops'],
               'reader_env': env}
        res = spawn(job, root, 'writer', env_extra=env)
        if 'child_failed' in res:
            bad('writer-process-failed', res['child_failed'][-400:])
            return viol, cnt
        ops = case['ops']
        for rec in res['obs']:
            i = rec['step']
            want = expected_report(model_after(ops, i))
            for where in ('same_handle', 'new_handle', 'new_process'):
                if where not in rec or rec[where] is None:
                    continue
                note('c04_reads_' + where)
                check_report(rec[where], want, where, i, bad, stale_pyc_mech(case, where))
            if 'rebuild' in rec:
                rb = rec['rebuild']
                for how in ('state', 'copy', 'dill'):
                    if how in rb:
                        note('c04_rebuilds_' + how)
                        check_report(rb[how], want, 'rebuilt-from-' + how, i, bad, stale_pyc_mech(case, 'new_handle'))
                        if rb.get(how + '_settings') is False:
                            bad('rebuilt-archive-settings-differ', 'archive rebuilt via %s reports different state' % how)
                nc = rb.get('named_copy')
                if nc is not None:
                    note('c04_named_copy_checks')
                    if 'error' in nc:
                        bad('named-copy-failed', 'copy(<new name>) / writing afterwards raised %s' % nc['error'])
                    elif not nc['original_store_has_write'] or nc['copy_followed_original'] or not nc['original_settings_kept']:
                        bad('original-redirected-by-copy', 'after a.copy(<new name>) a write through a: visible to a fresh handle '
                            'on the original location: %r; visible through the copy: %r; original still reports its own settings: %r'
                            % (nc['original_store_has_write'], nc['copy_followed_original'], nc['original_settings_kept']))
                if rb.get('dill_shares_store') is False:
                    bad('rebuilt-archive-other-store', 'a write through the unpickled archive is not visible through the original')
        cell = case.get('func_cell')
        if cell is not None:
            cell = dict(cell, root=os.path.join(root, 'F'))
            os.makedirs(cell['root'])
            fr = spawn({'job': 'c04-func', 'cell': cell, 'reader_env': env}, root, 'func', env_extra=env, timeout=180)
            if 'child_failed' in fr:
                bad('function-session-failed', fr['child_failed'][-400:])
            else:
                after = spawn({'job': 'c17-session', 'cells': [cell], 'shuffle_seed': 5}, root, 'fafter', env_extra=env)
                fr['after_exit'] = after['cells'][0] if 'cells' in after else {'child_failed': after.get('child_failed', '')[-300:]}
                first = fr['first']
                long_mech = name_too_long_mech(cell)
                if not any(r.startswith('raised') for r in first['results']):
                    for where in ('same_process', 'live_process', 'after_exit'):
                        o = fr[where]
                        if 'child_failed' in o:
                            bad('function-session-failed', '%s: %s' % (where, o['child_failed']))
                            continue
                        note('c04_function_recreated_' + where)
                        if o['evals'] != 0 or o['info'][1] != 0:
                            bad('recreated-function-recomputed',
                                'backend %s, %s_cache, keymap %r: a function re-created on the archive (%s) evaluated %d '
                                'times, info (hit,miss,load)=%r; the first session had stored all %d results %s'
                                % (backend_name(case['backend']), cell['deco'], cell['keymap'], where, o['evals'],
                                   o['info'], len(first['results']), first['results'][:4]),
                                stale_pyc_mech(case, 'new_handle') + long_mech)
                        elif o['results'] != first['results']:
                            bad('recreated-function-other-results',
                                '%s: results %r, first session %r' % (where, o['results'][:4], first['results'][:4]),
                                stale_pyc_mech(case, 'new_handle') + long_mech)
                else:
                    note('c04_function_sessions_with_failed_calls')
        # a new process after the writer has exited
        final = spawn({'job': 'c04-read', 'backend': case['backend'], 'root': root}, root, 'final', env_extra=env)
        note('c04_reads_after_exit')
        if 'child_failed' in final:
            bad('reader-process-failed', final['child_failed'][-300:])
        else:
            check_report(final['contents'], expected_report(model_after(ops, len(ops))), 'after_exit', len(ops), bad,
                         stale_pyc_mech(case, 'after_exit'))
    return viol, cnt


def check_report(got, want, where, step, bad, mech=()):
    if 'error' in got:
        bad('reader-raised', '%s reader at step %d: %s' % (where, step, got['error']), mech)
        return
    for path in ('lookups', 'get'):
        if path in got and got[path] != want:
            bad('reader-lookup-differs', '%s reader at step %d: per-key %s gave %s, written %s'
                % (where, step, path, json.dumps(got[path])[:160], json.dumps(want)[:160]), mech)
            return
    if 'len' in got and (got['len'] != len(want) or not got['contains']):
        bad('reader-len-or-membership-differs', '%s reader at step %d: len %r (written %d), all listed keys members: %r'
            % (where, step, got['len'], len(want), got['contains']), mech)
        return
    if got['items'] != want:
        gk = [json.dumps(k) for k, _ in got['items']]
        wk = [json.dumps(k) for k, _ in want]
        if gk != wk:
            bad('reader-sees-other-keys', '%s reader at step %d sees keys %s, written %s' % (where, step, gk[:6], wk[:6]), mech)
        else:
            diff = [(k, g, w) for (k, g), (_, w) in zip(got['items'], want) if g != w]
            bad('reader-sees-other-values', '%s reader at step %d: %s' % (
                where, step, '; '.join('%s: read %s, stored %s' % (json.dumps(k)[:40], json.dumps(g)[:60], json.dumps(w)[:60])
                                       for k, g, w in diff[:3])), mech)


# =========================================================================================
# parent side: C17

STABLE_VALUES = [0, 1, 2, -1, 'a', 'b', '1', 2.5, None, (1,), (1, 2), ('a',), b'a', frozenset([1]), '',
                 [1, 2], {'k': 1}, 1.0e-09, 'd', 1.0, 2.0, True]


DIRECTED_LONG_CELL = {
    'spec': {'req': ['x'], 'def': [], 'var': False, 'kwonly': [], 'kw': False},
    'keymap': {'cls': 'stringmap', 'type': None, 'flat': True, 'typed': False, 'sentinel': False},
    'calls': [[['L' * 300], {}], [['short'], {}]], 'deco': 'inf', 'safe': False,
    'backend': {'kind': 'dir', 'serialized': True, 'protocol': None}, 'maxsize': 3, 'purge': False}


def gen_cells_c17(rng, n, with_backend=False, codecs=False):
    from kv import keymon
    cells = []
    for _ in range(n):
        spec = keymon.gen_spec(rng)
        km = rng.choice([k for k in gen.keymap_cfgs(info_preserving=True)])
        if codecs and not with_backend and rng.random() < 0.2:
            # stringmap with a real codec and each error mode (a key that cannot be encoded raises - in every process alike)
            km = {'cls': 'stringmap', 'type': rng.choice(['utf_8', 'latin_1', 'ascii', 'utf_16']), 'flat': rng.random() < 0.6,
                  'typed': rng.random() < 0.3, 'sentinel': False, 'kw': {'strict': rng.choice([True, None, False])}}
        kk = gen.key_kind(km)
        if kk == 'raw' and not km['flat']:
            km = dict(km); km['flat'] = True
        pool = [v for v in STABLE_VALUES if not (kk == 'raw' and isinstance(v, (list, dict)))]
        if km.get('kw') and 'strict' in km['kw']:
            pool = pool + [u'\u03a9mega', u'\xfcn\xef', u'\u65e5\u672c']
        if with_backend:
            # (a directory archive names 1, 1.0 and True apart although they are one key in memory - recorded C03
            # finding; sessions are judged on values that do not collide that way)
            pool = [v for v in pool if not (type(v) in (float, bool) and v in (1.0, 2.0, True))]
            if rng.random() < 0.2:
                # a long text argument: entry names close to (on a directory archive: possibly beyond) the file
                # system's 255-byte limit
                pool = pool + ['M' * rng.choice([200, 225, 232, 238, 244])] * 3
        calls = []
        for _ in range(6):
            asg = keymon.assignment(rng, spec, pool)
            D = dict((nme, dec(v)) for nme, v in spec['def'])
            D.update((nme, dec(v)) for nme, has, v in spec['kwonly'] if has)
            a, k = keymon.spell(rng, spec, asg, D)
            calls.append([enc(a), enc(k)])
        cell = {'spec': spec, 'keymap': km, 'calls': calls, 'deco': rng.choice(['inf', 'lru', 'lfu', 'mru', 'rr', 'no']),
                'safe': rng.random() < 0.3}
        if rng.random() < 0.25:
            cell['tkind'] = 'sibling'
        if rng.random() < 0.3:
            names = keymon.spec_names(spec) + [x[0] for x in spec['kwonly']]
            if names:
                cell['ignore'] = [rng.choice(names)]     # puts klepto's NULL marker into the key
        if with_backend:
            for _ in range(50):
                b = dict(rng.choice(PERSISTENT))
                # an ignored argument leaves klepto's NULL marker object inside a raw key: like the
                # sentinel, its repr is not Python source, so source-text files cannot hold such keys
                km_eff = dict(km, sentinel=True) if (cell.get('ignore') and kk == 'raw') else km
                if gen.backend_accepts(b, kk, km_eff):
                    break
            else:
                continue
            cell['backend'] = b
            cell['maxsize'] = rng.choice([1, 2, 3, 8])
            cell['purge'] = rng.random() < 0.4
            if b['kind'] == 'dir' and rng.random() < 0.6:
                _fit_long_names(cell, rng.choice([244, 249, 253, 255]))
        cells.append(cell)
    return cells


def _fit_long_names(cell, target):
    """stretch / shrink the long text argument of a call so that its directory entry name ('K_' + key) is exactly
    `target` bytes long: just below - or at - the 255-byte limit of a file name, where names still work"""
    try:
        from kv import keymon
        from kv.cachemon import dir_fname
        tgt = keymon.Target(cell['spec'], 'func')
        f = tgt.decorate(keymon.make_deco({'keymap': cell['keymap'], 'deco': 'inf', 'safe': False, 'ignore': cell.get('ignore')}))

        def name_len(call):
            return len(('K_' + dir_fname(f.key(*dec(call[0]), **dec(call[1])))).encode('utf-8'))
        for call in cell['calls']:
            spots = [('a', i) for i, v in enumerate(call[0]) if isinstance(v, str) and v.startswith('MMMM')] + \
                    [('k', n) for n, v in call[1].items() if isinstance(v, str) and v.startswith('MMMM')]
            if len(spots) != 1:
                continue
            where, at = spots[0]
            box = call[0] if where == 'a' else call[1]
            for _ in range(3):
                d = target - name_len(call)
                if d == 0 or len(box[at]) + d < 8:
                    break
                box[at] = 'M' * (len(box[at]) + d)
    except Exception:
        pass


def order_mech(cell, call, order_a, order_b):
    """witness-derived: does merely re-ordering this call's keywords change its key *within this
    process* (no hash seed involved)?  then it is the recorded keyword-order leak of non-flat keymaps"""
    if cell['keymap']['flat']:
        return []
    try:
        from kv import keymon
        tgt = keymon.Target(cell['spec'], 'func')
        f = tgt.decorate(keymon.make_deco({'keymap': cell['keymap'], 'deco': 'inf', 'safe': False,
                                           'ignore': cell.get('ignore')}))
        a, k = dec(call[0]), dec(call[1])
        ka = f.key(*a, **dict((n, k[n]) for n in order_a))
        kb = f.key(*a, **dict((n, k[n]) for n in order_b))
        if ka != kb:
            return ['nonflat-kwd-order']
    except Exception:
        pass
    return []


def name_too_long_mech(cell):
    """witness-derived: on a dir backend, does one of this cell's calls get a key whose entry directory name
    ('K_' + str(key)) is longer than the file system's 255-byte name limit?  dir_archive swallows the OSError of
    the final rename, so such an entry is silently not stored (recorded finding)"""
    if cell.get('backend', {}).get('kind') != 'dir':
        return []
    try:
        from kv import keymon
        from kv.cachemon import dir_fname
        tgt = keymon.Target(cell['spec'], 'func')
        f = tgt.decorate(keymon.make_deco({'keymap': cell['keymap'], 'deco': 'inf', 'safe': False,
                                           'ignore': cell.get('ignore')}))
        for call in cell['calls']:
            a, k = dec(call[0]), dec(call[1])
            name = 'K_' + dir_fname(f.key(*a, **k))
            if len(name.encode('utf-8')) > 255:
                return ['dir-entry-name-too-long']
    except Exception:
        pass
    return []


def run_c17_keys(rng, ncells, root, viol, cnt, cells=None):
    cells = gen_cells_c17(rng, ncells, codecs=True) if cells is None else cells
    reports = []
    seeds = ['0', '1', str(rng.randrange(2, 4000000)), 'random']
    for j, hs in enumerate(seeds):
        r = spawn({'job': 'c17-keys', 'cells': cells, 'shuffle_seed': j * 7919 + 1}, root, 'keys%d' % j,
                  env_extra={'PYTHONHASHSEED': hs}, timeout=300)
        if 'child_failed' in r:
            viol.append({'property': 'C17', 'kind': 'key-process-failed', 'msg': r['child_failed'][-300:], 'mech': [],
                         'case': {'cells': len(cells)}})
            return cells, 0
        reports.append(r)
    probes = set(r['probe'] for r in reports)
    cnt['c17_processes'] = cnt.get('c17_processes', 0) + len(reports)
    cnt['c17_distinct_hash_salts'] = max(cnt.get('c17_distinct_hash_salts', 0), len(probes))
    nontrivial = 0
    for ci, cell in enumerate(cells):
        base = reports[0]['keys'][ci]
        ok = True
        for r in reports[1:]:
            other = r['keys'][ci]
            for (call, k0, k1) in zip(cell['calls'], base, other):
                cnt['c17_key_comparisons'] = cnt.get('c17_key_comparisons', 0) + 1
                if k0[:2] != k1[:2]:
                    ok = False
                    viol.append({'property': 'C17', 'kind': 'key-differs-between-processes',
                                 'mech': order_mech(cell, call, k0[2], k1[2]),
                                 'msg': 'keymap %r, call %s: key %s in the PYTHONHASHSEED=%s process, %s in the %s process'
                                        % (cell['keymap'], json.dumps(call)[:100], k0[0][:80], reports[0]['hashseed'],
                                           k1[0][:80], r['hashseed']),
                                 'case': {'cell': cell}})
                    break
            if not ok:
                break
        if any(len(dec(c[1])) >= 2 for c in cell['calls']):
            nontrivial += 1
    return cells, nontrivial


def run_c17_sessions(rng, ncells, root, viol, cnt, directed=False, cells=None):
    cells = gen_cells_c17(rng, ncells, with_backend=True) if cells is None else cells
    if directed:
        cells.append(copy.deepcopy(DIRECTED_LONG_CELL))
        cnt['directed_cases'] = cnt.get('directed_cases', 0) + 1
    for i, c in enumerate(cells):
        c['root'] = os.path.join(root, 'sess%d' % i)
    ra = spawn({'job': 'c17-session', 'cells': cells, 'shuffle_seed': 11}, root, 'sessA',
               env_extra={'PYTHONHASHSEED': '0'}, timeout=600)
    rb = spawn({'job': 'c17-session', 'cells': cells, 'shuffle_seed': 98}, root, 'sessB',
               env_extra={'PYTHONHASHSEED': str(rng.randrange(1, 4000000))}, timeout=600)
    if 'child_failed' in ra or 'child_failed' in rb:
        viol.append({'property': 'C17', 'kind': 'session-process-failed', 'mech': [],
                     'msg': (ra.get('child_failed') or rb.get('child_failed'))[-400:], 'case': {'cells': len(cells)}})
        return 0
    n = 0
    for cell, a, b in zip(cells, ra['cells'], rb['cells']):
        cnt['c17_sessions'] = cnt.get('c17_sessions', 0) + 1
        if any(r.startswith('raised') for r in a['results'] + b['results']):
            cnt['c17_sessions_with_failed_calls'] = cnt.get('c17_sessions_with_failed_calls', 0) + 1
            continue
        mech = []
        for call, oa, ob in zip(cell['calls'], a.get('orders', []), b.get('orders', [])):
            mech = order_mech(cell, call, oa, ob)
            if mech:
                break
        mech = mech + name_too_long_mech(cell)
        if b['info'][1] != 0 or b['evals'] != 0:
            viol.append({'property': 'C17', 'kind': 'second-session-recomputed', 'mech': mech,
                         'msg': 'backend %s, keymap %r: the second session (other hash seed, other keyword order) had '
                                'info (hit,miss,load)=%r and evaluated the function %d times; first session %r'
                                % (backend_name(cell['backend']), cell['keymap'], b['info'], b['evals'], a['info']),
                         'case': {'cell': cell}})
        elif a['results'] != b['results']:
            viol.append({'property': 'C17', 'kind': 'second-session-other-results', 'mech': mech,
                         'msg': 'second session returned different results: %r vs %r' % (b['results'][:3], a['results'][:3]),
                         'case': {'cell': cell}})
        if b['info'][2] > 0:
            n += 1
            cnt['c17_sessions_with_loads'] = cnt.get('c17_sessions_with_loads', 0) + 1
    return n


RULES = {
    'C04': 'write history on one persistent configuration observed by >=3 reader placements (same handle, new handle, new process alive/after exit) and >=1 rebuild via state/copy/dill',
    'C17': 'keymap cell whose calls carry >=2 keyword arguments (order shuffled per process) keyed in 4 processes with different hash salts, or a two-session run in which the second session was served by loads',
}


def run_shard(prop, tier, seed, shard, nshards, opts):
    t0 = time.time()
    budget = opts.get('budget_s', 60)
    res = {'cases': 0, 'digests': [], 'counters': {}, 'samples': [], 'violations': [],
           'cells': {}, 'anchors': {}, 'notes': []}
    cnt = res['counters']
    if prop == 'C04':
        if shard == 0:
            # directed witness of the recorded long-entry-name finding (same judge; passes once repaired)
            case = {'backend': {'kind': 'dir', 'serialized': True, 'protocol': None},
                    'ops': [['set', 'k', 1], ['check', False]], 'write_bytecode': False, 'seed': 1, 'directed': True,
                    'func_cell': dict(DIRECTED_LONG_CELL)}
            viol, c = run_case_c04(case)
            res['cases'] += 1
            cnt['directed_cases'] = cnt.get('directed_cases', 0) + 1
            res['violations'].extend(viol[:4])
        i = shard
        n_total = opts.get('cases', 400)
        while i < n_total and time.time() - t0 < budget:
            rng = gen.make_rng('procmon', prop, seed, i)
            case = gen_case_c04(rng)
            viol, c = run_case_c04(case)
            res['cases'] += 1
            for k, v in c.items():
                cnt[k] = cnt.get(k, 0) + v
            cell = backend_name(case['backend']) + ('/bytecode' if case['write_bytecode'] else '')
            res['cells'][cell] = res['cells'].get(cell, 0) + 1
            if c.get('c04_reads_new_process') and c.get('c04_reads_new_handle') and c.get('c04_rebuilds_copy'):
                res['digests'].append(digest(case))
                if len(res['samples']) < 2:
                    res['samples'].append({'backend': case['backend'], 'ops': case['ops'][:8]})
            res['violations'].extend(viol[:20])
            i += nshards
        return res
    # C17
    rounds = opts.get('rounds', 1)
    with Scratch('c17') as root:
        for rnd in range(rounds):
            if time.time() - t0 > budget:
                break
            rng = gen.make_rng('procmon', prop, seed, shard, rnd)
            sub = os.path.join(root, 'r%d' % rnd)
            os.makedirs(sub)
            cells, nt = run_c17_keys(rng, opts.get('cells', 60), sub, res['violations'], cnt)
            res['cases'] += len(cells)
            for c in cells[:nt]:
                res['digests'].append(digest(c))
            ns = run_c17_sessions(rng, opts.get('sessions', 6), sub, res['violations'], cnt,
                                  directed=(shard == 0 and rnd == 0))
            res['cases'] += opts.get('sessions', 6)
            for j in range(ns):
                res['digests'].append(digest(['session', shard, rnd, j]))
            if cells and len(res['samples']) < 2:
                res['samples'].append({'spec': cells[0]['spec'], 'keymap': cells[0]['keymap'], 'calls': cells[0]['calls'][:3]})
    res['violations'] = res['violations'][:200]
    return res


def replay(v, prop):
    if prop == 'C04':
        return run_case_c04(v['case'])[0]
    cell = (v.get('case') or {}).get('cell')
    if not cell:
        return []
    viol, cnt = [], {}
    import random as _r
    rng = _r.Random(0)
    with Scratch('c17r') as root:
        if 'session' in v.get('kind', ''):
            cell = dict(cell)
            run_c17_sessions(rng, 0, root, viol, cnt, cells=[cell])
        else:
            run_c17_keys(rng, 0, root, viol, cnt, cells=[cell])
    return viol


if __name__ == '__main__':
    child_main(sys.argv[1])
