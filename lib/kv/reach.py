"""Reach monitor: which anchor lines of klepto's source were executed (sys.monitoring).

Anchors are located by source *pattern*, never by line number, so they survive edits.
LINE events are DISABLEd after their first hit, so the cost is ~zero.
"""
import os
import sys

from kv.common import repo_root

# name -> (file, substring that identifies the anchor line)
ANCHORS = {
    'lru_compaction': ('_cache.py', 'queue_appendleft(sentinel)'),
    'lru_evict': ('_cache.py', 'while refcount[key]:'),
    'lfu_evict': ('_cache.py', 'nsmallest(max('),
    'mru_evict': ('_cache.py', 'k = queue_pop()'),
    'rr_evict': ('_cache.py', 'choice(list(cache.keys()))'),
    'purge_dump': ('_cache.py', 'if cache.archived() and purge:'),
    'safe_lru_compaction': ('safe.py', 'queue_appendleft(sentinel)'),
    'safe_lfu_evict': ('safe.py', 'nsmallest(max('),
    'safe_mru_evict': ('safe.py', 'k = queue_pop()'),
    'safe_rr_evict': ('safe.py', 'choice(list(cache.keys()))'),
    'safe_fallback': ('safe.py', 'except: #TypeError'),
    'cache_load_key': ('_archives.py', 'self.update({arg:self.archive[arg]})'),
    'cache_dump_key': ('_archives.py', 'self.archive.update({arg:self.__getitem__(arg)})'),
    'dir_store_rename': ('_archives.py', 'os.renames(self._getdir(_key), self._getdir(key))'),
    'file_save_rename': ('_archives.py', 'os.renames(_filename, filename)'),
    'dir_import_reader': ('_archives.py', 'string = "from %s%s import memo as %s'),
    'file_import_reader': ('_archives.py', 'string = "from %s import memo as %s'),
    'sql_select': ('_archives.py', 'sql = "select * from %s where argstr = ?"'),
    'keygen_crossref': ('_inspect.py', 'names_to_ignore = names_to_ignore.union(_names)'),
    'keygen_transfer': ('_inspect.py', 'user_kwds.update(dict(zip(explicitly_named,user_args)))'),
    'keymap_flat_sorted': ('keymaps.py', 'sorted_items = self._sorted(list(kwds.items()))'),
    'deep_round_dict': ('rounding.py', 'elif isinstance(j, dict): _args[i] = deep_round(**j)[1]'),
    'validate_required': ('_inspect.py', 'if len(provided) < _required:'),
}


class Reach(object):
    def __init__(self):
        self.hit = {}
        self.lines = {}
        root = os.path.join(repo_root(), 'klepto')
        for name, (fn, pat) in ANCHORS.items():
            path = os.path.join(root, fn)
            try:
                with open(path) as f:
                    for no, line in enumerate(f, 1):
                        if pat in line:
                            self.lines.setdefault((path, no), []).append(name)
            except OSError:
                pass
        self.prefix = root + os.sep
        self.tool = None

    def start(self):
        mon = getattr(sys, 'monitoring', None)
        if mon is None:
            return
        for tid in (3, 4, 5, 2):
            try:
                mon.use_tool_id(tid, 'kvreach')
                self.tool = tid
                break
            except ValueError:
                continue
        if self.tool is None:
            return
        E = mon.events

        def on_line(code, lineno):
            fn = code.co_filename
            if fn.startswith(self.prefix):
                names = self.lines.get((fn, lineno))
                if names:
                    for n in names:
                        self.hit[n] = self.hit.get(n, 0) + 1
            return mon.DISABLE
        mon.register_callback(self.tool, E.LINE, on_line)
        mon.set_events(self.tool, E.LINE)

    def stop(self):
        mon = getattr(sys, 'monitoring', None)
        if mon is None or self.tool is None:
            return
        mon.set_events(self.tool, 0)
        mon.register_callback(self.tool, mon.events.LINE, None)
        mon.free_tool_id(self.tool)
        self.tool = None

    def anchors(self):
        known = set(n for v in self.lines.values() for n in v)
        out = dict((n, 1 if self.hit.get(n) else 0) for n in known)
        return out
