"""Generators shared by the engines: value encoding, probe functions, keymap/backend
configurations and their compatibility matrix.

Cases are plain JSON data (replayable after the generator changes).
"""
import random
import threading

# ---------------------------------------------------------------------------------------
# JSON <-> Python values

class BadRepr(object):
    def __repr__(self):
        raise RuntimeError('repr refused')
    __str__ = __repr__
    def __eq__(self, o):
        return isinstance(o, BadRepr)
    def __hash__(self):
        return 7


class BadHash(object):
    def __hash__(self):
        raise TypeError('hash refused')
    def __eq__(self, o):
        return isinstance(o, BadHash)
    def __repr__(self):
        return 'BadHash()'


class BadReduce(object):
    def __reduce_ex__(self, proto):
        raise TypeError('reduce refused')
    def __eq__(self, o):
        return isinstance(o, BadReduce)
    def __hash__(self):
        return 11
    def __repr__(self):
        return 'BadReduce()'


class BadReprKE(object):
    """like BadRepr, but the refusal is a KeyError - the exception klepto's own code uses for 'not cached'"""
    def __repr__(self):
        raise KeyError('repr refused')
    __str__ = __repr__
    def __eq__(self, o):
        return isinstance(o, BadReprKE)
    def __hash__(self):
        return 13


class BadHashKE(object):
    def __hash__(self):
        raise KeyError('hash refused')
    def __eq__(self, o):
        return isinstance(o, BadHashKE)
    def __repr__(self):
        return 'BadHashKE()'


class BadReduceKE(object):
    def __reduce_ex__(self, proto):
        raise KeyError('reduce refused')
    def __eq__(self, o):
        return isinstance(o, BadReduceKE)
    def __hash__(self):
        return 17
    def __repr__(self):
        return 'BadReduceKE()'


def _gen():
    yield 1


SPECIALS = {
    'badrepr': BadRepr, 'badhash': BadHash, 'badreduce': BadReduce,
    'badrepr_ke': BadReprKE, 'badhash_ke': BadHashKE, 'badreduce_ke': BadReduceKE,
    'lock': threading.Lock, 'generator': _gen,
}


import collections

Pt = collections.namedtuple('Pt', 'u v')


def dec(v):
    """decode a JSON-encoded value"""
    if isinstance(v, list):
        return [dec(i) for i in v]
    if isinstance(v, dict):
        if '__deep__' in v:
            x = []
            for _ in range(int(v['__deep__'])):
                x = [x]          # nested far deeper than repr / pickle / hash can recurse
            return x
        if '__od__' in v:
            return collections.OrderedDict((dec(k), dec(x)) for k, x in v['__od__'])
        if '__dd__' in v:
            return collections.defaultdict(float, ((dec(k), dec(x)) for k, x in v['__dd__']))
        if '__nt__' in v:
            return Pt(*[dec(i) for i in v['__nt__']])
        if '__dq__' in v:
            return collections.deque(dec(i) for i in v['__dq__'])
        if '__fr__' in v:
            import fractions
            return fractions.Fraction(v['__fr__'][0], v['__fr__'][1])
        if '__dc__' in v:
            import decimal
            return decimal.Decimal(v['__dc__'])
        if '__t__' in v:
            return tuple(dec(i) for i in v['__t__'])
        if '__b__' in v:
            return bytes.fromhex(v['__b__'])
        if '__s__' in v:
            return set(dec(i) for i in v['__s__'])
        if '__fs__' in v:
            return frozenset(dec(i) for i in v['__fs__'])
        if '__f__' in v:
            return float(v['__f__'])
        if '__d__' in v:
            return dict((dec(k), dec(x)) for k, x in v['__d__'])
        if '__h__' in v:
            return SPECIALS[v['__h__']]()
        if '__r__' in v:
            return range(*v['__r__'])
        if '__B__' in v:
            return bool(v['__B__'])
        return dict((k, dec(x)) for k, x in v.items())
    return v


class Pre(object):
    """an already-encoded value (used for objects that only exist at run time: locks, generators)"""
    def __init__(self, j):
        self.j = j
    def __eq__(self, o):
        return isinstance(o, Pre) and o.j == self.j
    def __hash__(self):
        return hash(repr(self.j))
    def __repr__(self):
        return 'Pre(%r)' % (self.j,)


def enc(v):
    """encode a Python value as JSON data (inverse of dec for the values we generate)"""
    if isinstance(v, Pre):
        return v.j
    if isinstance(v, bool):
        return {'__B__': int(v)}
    if isinstance(v, collections.OrderedDict):
        return {'__od__': [[enc(k), enc(x)] for k, x in v.items()]}
    if isinstance(v, collections.defaultdict):
        return {'__dd__': [[enc(k), enc(x)] for k, x in v.items()]}
    if isinstance(v, Pt):
        return {'__nt__': [enc(i) for i in v]}
    if isinstance(v, collections.deque):
        return {'__dq__': [enc(i) for i in v]}
    if type(v).__name__ == 'Fraction':
        return {'__fr__': [v.numerator, v.denominator]}
    if type(v).__name__ == 'Decimal':
        return {'__dc__': str(v)}
    if isinstance(v, tuple):
        return {'__t__': [enc(i) for i in v]}
    if isinstance(v, list):
        return [enc(i) for i in v]
    if isinstance(v, bytes):
        return {'__b__': v.hex()}
    if isinstance(v, frozenset):
        return {'__fs__': [enc(i) for i in sorted(v, key=repr)]}
    if isinstance(v, set):
        return {'__s__': [enc(i) for i in sorted(v, key=repr)]}
    if isinstance(v, range):
        return {'__r__': [v.start, v.stop, v.step]}
    if isinstance(v, float):
        if v != v or v in (float('inf'), float('-inf')):
            return {'__f__': repr(v)}
        return v
    if isinstance(v, dict):
        if all(isinstance(k, str) and not k.startswith('__') for k in v):
            return dict((k, enc(x)) for k, x in v.items())
        return {'__d__': [[enc(k), enc(x)] for k, x in v.items()]}
    for name, cls in SPECIALS.items():
        if name not in ('lock', 'generator') and isinstance(v, cls):
            return {'__h__': name}
    return v


# ---------------------------------------------------------------------------------------
# probe functions

class Probe(object):
    """A generated deterministic function whose value is the canonical binding of the call.

    `fn` logs each evaluation and can be armed to raise once; `raw` is the same body
    without logging (the oracle for "what the undecorated function returns").
    The functions live in a non-importable module namespace so dill pickles them by value.
    """
    def __init__(self, sig, result_mode='tuple', method=False):
        self.sig = sig
        self.result_mode = result_mode
        names = sig_names(sig)
        parts = []
        for kind, n in names:
            if kind == 'kw':
                parts.append('tuple(sorted(%s.items()))' % n)
            else:
                parts.append(n)
        tup = '(%s,)' % ', '.join(["'R'"] + parts)
        if result_mode == 'str':
            tup = 'repr(%s)' % tup
        # half of the bindings map to a falsy result (None, 0, '', False) or to a numeric-looking string
        # ('5.0', '007'): a cache that mistakes a stored falsy value for "absent", or a backend that
        # coerces text to numbers, must be visible
        src = ('def _FALSY(r):\n'
               '    try:\n'
               '        h = sum(ord(c) for c in repr(r)) %% 12\n'
               '    except Exception:\n'
               '        return r\n'
               '    if h == 0: return None\n'
               '    if h == 1: return 0\n'
               '    if h == 2: return \'\'\n'
               '    if h == 3: return False\n'
               '    if h == 4: return \'5.0\'\n'
               '    if h == 5: return \'007\'\n'
               '    return r\n'
               'def P(%s):\n'
               '    _LOG.append(1)\n'
               '    if _ARM[0] is not None:\n'
               '        e = _ARM[0]; _ARM[0] = None\n'
               '        raise e\n'
               '    return _FALSY(%s)\n'
               'def RAW(%s):\n'
               '    return _FALSY(%s)\n') % (sig, tup, sig, tup)
        self.src = src
        self.ns = {'__name__': '__kvprobe__', '_LOG': [], '_ARM': [None]}
        exec(src, self.ns)
        self.fn = self.ns['P']
        self.raw = self.ns['RAW']

    @classmethod
    def adopt(cls, sig, result_mode, fn):
        """wrap an existing probe function (e.g. one restored by dill) whose globals hold the log"""
        self = cls.__new__(cls)
        self.sig, self.result_mode = sig, result_mode
        self.ns = fn.__globals__
        self.fn = fn
        self.raw = self.ns['RAW']
        self.src = None
        return self

    @property
    def log(self):
        return self.ns['_LOG']

    def arm(self, exc):
        self.ns['_ARM'][0] = exc

    def disarm(self):
        self.ns['_ARM'][0] = None


def sig_names(sig):
    """[(kind, name)] for a signature source string; kind in pos/var/kwonly/kw"""
    out = []
    seen_star = False
    for part in [p.strip() for p in sig.split(',') if p.strip()]:
        if part == '*':
            seen_star = True
            continue
        if part.startswith('**'):
            out.append(('kw', part[2:]))
        elif part.startswith('*'):
            out.append(('var', part[1:]))
            seen_star = True
        else:
            name = part.split('=')[0].strip()
            out.append(('kwonly' if seen_star else 'pos', name))
    return out


def sig_has_varargs(sig):
    return any(k == 'var' for k, _ in sig_names(sig))


SIGS = ['x', 'x, y=2', 'x, y', 'x, *args', '*args', 'x, y=2, **kw', 'x, y=2, *args, **kw',
        'x, *, k=1', 'self, y=2', 'func, ignored=2']      # (the last two: names klepto's own machinery uses)

# values: no two of them are ==-equal with different type/repr (merging by an untyped
# keymap is C10's subject, not the cache engine's); no '/', no NaN, no address reprs.
UNIVERSE = [0, 1, 2, 3, 'a', 'b', 'B', 'a-b', 'a_b', '1', 2.5, -1, None, (1, 2), 'x',
            u'\u00fcn\u00ef', b'xy', (1, (2, 'z')), 10 ** 20, '']


def gen_call(rng, sig, universe):
    """one (args, kwds) call valid for sig, drawn from a small universe"""
    names = sig_names(sig)
    args, kwds = [], {}
    pos = [n for k, n in names if k == 'pos']
    parts = [p.strip() for p in sig.split(',')]
    defaulted = set(p.split('=')[0].strip() for p in parts if '=' in p)
    by_kw = False
    for n in pos:
        if n in defaulted and rng.random() < 0.4:
            by_kw = True  # later positionals must go by keyword
            continue
        v = rng.choice(universe)
        if by_kw or rng.random() < 0.3:
            kwds[n] = v
            by_kw = True
        else:
            args.append(v)
    if any(k == 'var' for k, _ in names) and not by_kw:
        for _ in range(rng.choice([0, 0, 1, 1, 2])):
            args.append(rng.choice(universe))
    for k, n in names:
        if k == 'kwonly' and rng.random() < 0.5:
            kwds[n] = rng.choice(universe)
    if any(k == 'kw' for k, _ in names):
        for extra in ('p', 'q'):
            if rng.random() < 0.25:
                kwds[extra] = rng.choice(universe)
    return args, kwds


# ---------------------------------------------------------------------------------------
# keymaps

def keymap_cfgs(info_preserving=True):
    """all keymap configurations (as JSON dicts) the engines draw from"""
    out = []
    for cls, types in (('keymap', [None]), ('stringmap', [None, 'repr']),
                       ('picklemap', [None, 'pickle', 'dill']),
                       ('hashmap', ['md5', 'sha1', 'sha256'] + ([] if info_preserving else [None]))):
        for t in types:
            for flat in (True, False):
                for typed in (False, True):
                    for sentinel in (False, True):
                        if not flat and sentinel:
                            continue
                        out.append({'cls': cls, 'type': t, 'flat': flat, 'typed': typed,
                                    'sentinel': sentinel})
    # serializer options handed through the keymap (they change the key bytes)
    for typed in (False, True):
        out.append({'cls': 'picklemap', 'type': 'dill', 'flat': True, 'typed': typed, 'sentinel': True,
                    'kw': {'protocol': 2}})
    out.append({'cls': 'picklemap', 'type': 'dill', 'flat': False, 'typed': False, 'sentinel': False,
                'kw': {'protocol': 3}})
    # chained keymaps (inner + outer: the outer one encodes the key the inner one built)
    out.append({'cls': 'stringmap', 'type': 'repr', 'flat': True, 'typed': False, 'sentinel': True,
                'outer': {'cls': 'hashmap', 'type': 'md5'}})
    out.append({'cls': 'picklemap', 'type': None, 'flat': False, 'typed': False, 'sentinel': False,
                'outer': {'cls': 'hashmap', 'type': 'sha1'}})
    out.append({'cls': 'keymap', 'type': None, 'flat': True, 'typed': True, 'sentinel': True,
                'outer': {'cls': 'stringmap', 'type': 'repr'}})
    return out


def build_keymap(klepto, km):
    from klepto import keymaps
    cls = getattr(keymaps, km['cls'])
    kw = {'typed': km['typed'], 'flat': km['flat']}
    if km['sentinel']:
        kw['sentinel'] = keymaps.SENTINEL
    if km['cls'] == 'stringmap' and km['type'] is not None:
        kw['encoding'] = km['type']
    if km['cls'] == 'picklemap' and km['type'] is not None:
        kw['serializer'] = km['type']
    if km['cls'] == 'hashmap' and km['type'] is not None:
        kw['algorithm'] = km['type']
    kw.update(km.get('kw') or {})
    if km.get('outer'):
        # a + b: the combined keymap flattens the call with b's flat/typed/sentinel settings, a encodes that
        # key, b encodes the result - so the structural flags go to the second operand
        o = km['outer']
        flags = dict((f, kw.pop(f)) for f in ('typed', 'flat', 'sentinel') if f in kw)
        inner = cls(**kw)
        okw = dict(flags)
        if o['cls'] == 'stringmap' and o.get('type') is not None:
            okw['encoding'] = o['type']
        if o['cls'] == 'picklemap' and o.get('type') is not None:
            okw['serializer'] = o['type']
        if o['cls'] == 'hashmap' and o.get('type') is not None:
            okw['algorithm'] = o['type']
        return inner + getattr(keymaps, o['cls'])(**okw)
    return cls(**kw)


def key_kind(km):
    """type of key a keymap produces: raw | str | bytes | hex | int"""
    if km.get('outer'):
        return key_kind(dict(km['outer'], flat=True, typed=False, sentinel=False))
    if km['cls'] == 'keymap':
        return 'raw'
    if km['cls'] == 'stringmap':
        return 'str'
    if km['cls'] == 'picklemap':
        return 'str' if km['type'] is None else 'bytes'
    return 'int' if km['type'] is None else 'hex'


def km_info_preserving(km, sig):
    if km['cls'] == 'hashmap' and km['type'] is None:
        return False
    if km['flat'] and sig_has_varargs(sig) and not km['sentinel']:
        return False
    return True


# ---------------------------------------------------------------------------------------
# backends

BACKENDS = [
    {'kind': 'dict'},
    {'kind': 'null'},
    {'kind': 'dict_archive'},
    {'kind': 'file', 'serialized': True, 'protocol': None},
    {'kind': 'file', 'serialized': True, 'protocol': 2},
    {'kind': 'file', 'serialized': True, 'protocol': 'json'},
    {'kind': 'file', 'serialized': False, 'protocol': None},
    {'kind': 'dir', 'serialized': True, 'protocol': None},
    {'kind': 'dir', 'serialized': True, 'protocol': 'json'},
    {'kind': 'dir', 'serialized': False, 'protocol': None},
    {'kind': 'dir', 'serialized': True, 'protocol': None, 'compression': 3},
    {'kind': 'dir', 'serialized': True, 'protocol': None, 'memmode': 'r+'},
    {'kind': 'dir', 'serialized': True, 'protocol': None, 'fast': True},
    {'kind': 'dir', 'serialized': True, 'protocol': None, 'permissions': 0o755},
    {'kind': 'sql', 'memory': False},
    {'kind': 'sql', 'memory': True},
]


def backend_name(b):
    s = b['kind']
    if b.get('direct'):
        s = 'direct:' + s
    if b['kind'] in ('file', 'dir'):
        if not b.get('serialized', True):
            s += '/source'
        elif b.get('protocol') == 'json':
            s += '/json'
        elif b.get('compression'):
            s += '/z'
        elif b.get('memmode'):
            s += '/mmap'
        elif b.get('fast'):
            s += '/fast'
        elif b.get('permissions'):
            s += '/perm'
        elif b.get('protocol') is not None:
            s += '/p%s' % b['protocol']
        else:
            s += '/pickle'
        if b.get('noext'):
            s += '/noext'
        if b.get('symlink'):
            s += '/symlink'
    if b['kind'] == 'sql':
        s += '/mem' if b.get('memory') else '/file'
    return s


def persistent(b):
    return b['kind'] in ('file', 'dir') or (b['kind'] == 'sql' and not b.get('memory'))


def backend_accepts(b, kkind, km=None):
    """can this backend hold keys of this kind (its documented domain)?"""
    k = b['kind']
    if k in ('dict', 'null', 'dict_archive'):
        return True
    if k == 'file' and not b.get('serialized', True) and kkind == 'raw' and km is not None \
            and (km.get('sentinel') or km.get('typed')):
        return False  # source-text encoding needs keys whose repr is Python source
    if kkind == 'int':
        return False
    json_ = b.get('protocol') == 'json' and not (b.get('compression') or b.get('memmode') or b.get('fast'))
    if json_:
        return kkind in ('str', 'hex')
    if k == 'sql':
        return kkind in ('str', 'hex', 'bytes')
    if k == 'dir' and not b.get('serialized', True):
        return kkind in ('hex', 'bytes')  # directory name must be an importable module name
    return True


def result_mode(b):
    if b['kind'] == 'sql':
        return 'str'
    if b.get('protocol') == 'json' and b['kind'] in ('file', 'dir'):
        return 'str'
    if b['kind'] in ('file', 'dir') and not b.get('serialized', True):
        return 'str'
    return 'tuple'


def build_archive(klepto, b, root, public=False, suffix=''):
    """the archive object for backend b rooted in directory root (None for dict/null)"""
    import os
    from klepto import _archives, archives
    k = b['kind']
    if k == 'dict' or k == 'null':
        return None
    if k == 'dict_archive':
        return archives.dict_archive('mem', cached=False) if public else _archives.dict_archive()
    if k == 'file':
        ext = '.py' if not b.get('serialized', True) else ('.json' if b.get('protocol') == 'json' else '.pkl')
        if b.get('noext'):
            ext = ''
        path = os.path.join(root, 'arch%s%s' % (suffix, ext))
        kw = {'serialized': b.get('serialized', True), 'protocol': b.get('protocol')}
        if public:
            return archives.file_archive(path, cached=False, **kw)
        return _archives.file_archive(path, **kw)
    if k == 'dir':
        path = os.path.join(root, 'archdir%s' % suffix)
        kw = {'serialized': b.get('serialized', True), 'protocol': b.get('protocol')}
        for o in ('compression', 'memmode', 'fast', 'permissions'):
            if b.get(o):
                kw[o] = b[o]
        if public:
            return archives.dir_archive(path, cached=False, **kw)
        return _archives.dir_archive(path, **kw)
    if k == 'sql':
        if b.get('memory'):
            db = 'sqlite:///:memory:'
        else:
            db = 'sqlite:///' + os.path.join(root, 'arch.db')
        table = 'memo' + suffix
        if public:
            return archives.sqltable_archive('%s?table=%s' % (db, table), cached=False)
        return _archives.sqltable_archive(db, table)
    raise ValueError(k)


def contents(obj):
    """contents of a cache/archive/dict as a plain dict, through its public read path"""
    if obj is None:
        return {}
    if hasattr(obj, '__asdict__'):
        return dict(obj.__asdict__())
    return dict(obj)


def make_rng(*parts):
    return random.Random('|'.join(str(p) for p in parts))
