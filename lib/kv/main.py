"""./bin/check <Cxx> [--tier quick|thorough] [--replay path]"""
import argparse
import json
import os
import sys
import time

from kv import common

# property -> (engine module, per-tier options, floor of distinct non-trivial cases, required counters)
CACHEMON = {
    'C01': {'quick': {'cases': 4000, 'budget_s': 50}, 'thorough': {'cases': 60000, 'budget_s': 600},
            'floor': 150, 'req': ['c01_checks']},
    'C02': {'quick': {'cases': 4000, 'budget_s': 50}, 'thorough': {'cases': 60000, 'budget_s': 600},
            'floor': 150, 'req': ['c02_checks']},
    'C05': {'quick': {'cases': 4000, 'budget_s': 50}, 'thorough': {'cases': 60000, 'budget_s': 600},
            'floor': 150, 'req': ['c05_checks', 'c05_overflows']},
    'C06': {'quick': {'cases': 4000, 'budget_s': 50}, 'thorough': {'cases': 60000, 'budget_s': 600},
            'floor': 150, 'req': ['c06_policy_checks_with_choice', 'c06_hit_checks'],
            'anchors': ['lru_compaction', 'safe_lru_compaction', 'lfu_evict', 'mru_evict', 'rr_evict']},
    'C07': {'quick': {'cases': 4000, 'budget_s': 50}, 'thorough': {'cases': 60000, 'budget_s': 600},
            'floor': 100, 'req': ['c07_drop_hook_evals', 'c07_boundary_checks', 'c07_unstorable_retrievability_checks', 'c07_unstorable_purges_that_raised']},
    'C15': {'quick': {'cases': 4000, 'budget_s': 50}, 'thorough': {'cases': 60000, 'budget_s': 600},
            'floor': 150, 'req': ['c15_checks', 'c15_mgmt_checks', 'c15_sibling_function_cases', 'stacked_decorator_cases']},
    'C16': {'quick': {'cases': 2800, 'budget_s': 50}, 'thorough': {'cases': 40000, 'budget_s': 600},
            'floor': 100, 'req': ['c16_raise_checks', 'twin_runs', 'calls_degraded']},
    'C18': {'quick': {'cases': 2800, 'budget_s': 50}, 'thorough': {'cases': 40000, 'budget_s': 600},
            'floor': 100, 'req': ['c18_introspection_checks', 'twin_runs', 'stacked_decorator_cases']},
    'C20': {'quick': {'cases': 4000, 'budget_s': 50}, 'thorough': {'cases': 40000, 'budget_s': 600},
            'floor': 100, 'req': ['c20_roundtrips', 'c20_lockstep_steps', 'c20_independence_checks',
                                  'c20_continuations_with_eviction', 'c20_cross_process_restores']},
}

ASSUME_COMMON = [
    'CPython 3.12, dill, pox and libsqlite3 are the trusted base',
    'h5py, pandas and sqlalchemy are absent: hdf archives and the sqlalchemy sql archives are outside the claim '
    '(the sqlite3 fallback sqltable_archive is exercised)',
    'cases are sampled by seeded generators; the verdict covers only the executions listed in coverage',
]


def run_cachemon(prop, tier, t0):
    from kv import cachemon
    spec = CACHEMON[prop]
    opts = dict(spec[tier])
    merged, problems = common.run_shards('cachemon', prop, tier, common.NCPU, opts,
                                         timeout=opts['budget_s'] * 3 + 120)
    self_div = merged['counters'].get('selftest_moncache_divergences', 0)
    if self_div:
        problems.append('MonCache instrument self-test diverged from the stock cache %d times' % self_div)
    merged['violations'] = [v for v in merged['violations'] if v.get('property') != 'SELF']
    req = list(spec['req'])
    return common.conclude(prop, tier, t0, merged, problems, cachemon.RULES[prop], spec['floor'],
                           'cachemon', assumptions=ASSUME_COMMON + [
                               'keymaps restricted to information-preserving configurations; backend/keymap '
                               'pairs restricted to keys and values the backend documents as storable',
                               'observations are taken through f.key/f.__cache__/f.info/f.archived and a '
                               'harness-side subclass of klepto.archives.cache passed via cache=',
                           ], required_counters=req, required_anchors=spec.get('anchors', ()))


KEYMON = {
    'C09': {'quick': {'cases': 8000, 'budget_s': 40}, 'thorough': {'cases': 400000, 'budget_s': 600},
            'floor': 500, 'req': ['c09_pairs_respelled', 'c09_behaviour_checks'],
            'anchors': ['keygen_transfer', 'keymap_flat_sorted']},
    'C10': {'quick': {'cases': 8000, 'budget_s': 40}, 'thorough': {'cases': 400000, 'budget_s': 600},
            'floor': 500, 'req': ['c10_pairs', 'c10_typed_pairs', 'c10_behaviour_checks', 'c10_flattening_pairs', 'c10_type_swap_pairs'],
            'anchors': ['keymap_flat_sorted']},
    'C11': {'quick': {'cases': 6000, 'budget_s': 45}, 'thorough': {'cases': 300000, 'budget_s': 600},
            'floor': 500, 'req': ['c11_ignored_pairs', 'c11_discriminating_pairs', 'c11_behaviour_checks'],
            'anchors': ['keygen_crossref']},
    'C12': {'quick': {'cases': 8000, 'budget_s': 40}, 'thorough': {'cases': 400000, 'budget_s': 600},
            'floor': 300, 'req': ['c12_receive_checks', 'c12_pairs_expected_merged', 'c12_pairs_expected_split',
                                  'c12_standalone_checks', 'c12_behaviour_checks', 'c12_keygen_passthrough_checks'],
            'anchors': ['deep_round_dict']},
}


def run_keymon(prop, tier, t0):
    from kv import keymon
    spec = KEYMON[prop]
    opts = dict(spec[tier])
    merged, problems = common.run_shards('keymon', prop, tier, common.NCPU, opts,
                                         timeout=opts['budget_s'] * 3 + 120)
    return common.conclude(prop, tier, t0, merged, problems, keymon.RULES[prop], spec['floor'],
                           'keymon', assumptions=ASSUME_COMMON + [
                               'call equivalence is decided by inspect.signature().bind (+apply_defaults) on the '
                               'undecorated callable; equivalent pairs re-spell the same objects, distinct pairs '
                               'differ under Python !=; NaN and address-based reprs are not generated',
                               'positional-only parameters are outside the quantifier and not generated',
                           ], required_counters=spec['req'], required_anchors=spec.get('anchors', ()))


def run_valmon(prop, tier, t0):
    from kv import valmon
    opts = {'quick': {'cases': 6000, 'budget_s': 40}, 'thorough': {'cases': 400000, 'budget_s': 600}}[tier]
    merged, problems = common.run_shards('valmon', prop, tier, common.NCPU, opts,
                                         timeout=opts['budget_s'] * 3 + 120)
    return common.conclude(prop, tier, t0, merged, problems, valmon.RULE, 500, 'valmon',
                           assumptions=ASSUME_COMMON + [
                               'the oracle is an actual call of a side-effect-free stub with the generated signature, '
                               'cross-checked with inspect.signature().bind; cases where the two oracles disagree '
                               'are dropped and counted', 'builtins / non-Python callables are not generated'],
                           required_counters=['c19_valid_calls', 'c19_invalid_calls'],
                           required_anchors=['validate_required'])


ARCHMON = {
    'C03': {'quick': {'cases': 2400, 'budget_s': 55}, 'thorough': {'cases': 60000, 'budget_s': 700},
            'floor': 300, 'req': ['c03_ops', 'c03_content_checks', 'c03_failed_store_checks', 'c03_copy_checks',
                                  'c03_eq_checks', 'c03_isolation_checks', 'c03_cached_sync_checks', 'c03_second_handle_checks']},
    'C08': {'quick': {'cases': 4000, 'budget_s': 45}, 'thorough': {'cases': 100000, 'budget_s': 600},
            'floor': 300, 'req': ['c08_steps', 'c08_parked_checks', 'c08_toggle_on', 'c08_sync_ops_while_off', 'c08_sync_ops_with_conflicting_values', 'c08_second_handle_checks', 'c08_dumps_with_unencodable_value']},
}


def run_archmon(prop, tier, t0):
    from kv import archmon
    spec = ARCHMON[prop]
    opts = dict(spec[tier])
    merged, problems = common.run_shards('archmon', prop, tier, common.NCPU, opts,
                                         timeout=opts['budget_s'] * 3 + 120)
    return common.conclude(prop, tier, t0, merged, problems, archmon.RULES[prop], spec['floor'],
                           'archmon', assumptions=ASSUME_COMMON + [
                               'keys and values are restricted to what each backend documents as storable: '
                               'json encodings get str keys and JSON-native values, the sqlite3 fallback scalars, '
                               'source-text encodings repr-round-trippable values and (for directories) importable names',
                               'popkeys is not demanded of dict_archive/null_archive (they, like dict, do not offer it)',
                           ], required_counters=spec['req'])


def run_procmon(prop, tier, t0):
    from kv import procmon
    if prop == 'C04':
        opts = {'quick': {'cases': 480, 'budget_s': 55}, 'thorough': {'cases': 12000, 'budget_s': 800}}[tier]
        req = ['c04_reads_same_handle', 'c04_reads_new_handle', 'c04_reads_new_process', 'c04_reads_after_exit',
               'c04_rebuilds_state', 'c04_rebuilds_copy', 'c04_rebuilds_dill',
               'c04_function_recreated_same_process', 'c04_function_recreated_live_process',
               'c04_function_recreated_after_exit', 'c04_named_copy_checks']
        floor = 60
        anchors = ['file_import_reader', 'dir_import_reader']
    else:
        opts = {'quick': {'cells': 60, 'sessions': 8, 'rounds': 2, 'budget_s': 50},
                'thorough': {'cells': 200, 'sessions': 20, 'rounds': 40, 'budget_s': 800}}[tier]
        req = ['c17_key_comparisons', 'c17_sessions_with_loads']
        floor = 300
        anchors = []
    merged, problems = common.run_shards('procmon', prop, tier, common.NCPU, opts,
                                         timeout=opts['budget_s'] * 3 + 180)
    if prop == 'C17' and merged['counters'].get('c17_distinct_hash_salts', 0) < 3 * common.NCPU:
        pass
    return common.conclude(prop, tier, t0, merged, problems, procmon.RULES[prop], floor, 'procmon',
                           assumptions=ASSUME_COMMON + [
                               'reader placements: same handle, new handle in the writer process, new process while '
                               'the writer is alive, new process after it exited; half of the C04 cases run with '
                               'bytecode writing enabled (PYTHONDONTWRITEBYTECODE unset)',
                               'C17 argument values have process-independent repr/pickle (no sets of strings, no '
                               'address-based reprs); each process shuffles keyword order independently',
                           ], required_counters=req, required_anchors=anchors)


def run_crashmon(prop, tier, t0):
    from kv import crashmon
    opts = {'quick': {'cases': 240, 'budget_s': 70}, 'thorough': {'cases': 4000, 'budget_s': 1500}}[tier]
    merged, problems = common.run_shards('crashmon', prop, tier, common.NCPU, opts,
                                         timeout=opts['budget_s'] * 3 + 240)
    c = merged['counters']
    if c.get('c13_kill_did_not_fire'):
        problems.append('%d armed kills did not fire' % c['c13_kill_did_not_fire'])
    if c.get('c13_audit_mismatch'):
        problems.append('shim completeness audit: %d runs in which strace and the shim disagree (%s)'
                        % (c['c13_audit_mismatch'], '; '.join(n for n in merged['notes'] if n.startswith('shim audit'))[:600]))
    if not c.get('c13_audit_runs_agreeing'):
        problems.append('shim completeness audit never ran (strace unavailable?)')
    if c.get('c13_event_prefix_mismatch'):
        merged['notes'].append('%d killed runs departed from the dry run\'s event kinds before the kill point'
                               % c['c13_event_prefix_mismatch'])
    extra = {'exhaustive': False,
             'explanation': 'per driven triple the sweep over mutating file-system events (+ half writes) is exhaustive '
                            '(c13_triples_fully_swept of c13_triples); the set of triples is sampled'}
    return common.conclude(prop, tier, t0, merged, problems, crashmon.RULE, 40, 'crashmon', extra=extra,
                           assumptions=ASSUME_COMMON + [
                               'crash = SIGKILL of the process immediately before a libc file-system call issued under the '
                               'archive root (LD_PRELOAD interposition; open/creat/write/pwrite/writev/close/rename*/unlink*/'
                               'rmdir/mkdir*/ftruncate/fsync/fdatasync/chmod/link/symlink/sendfile/copy_file_range), plus a half-written variant of '
                               'every write; the page cache survives (no power loss), so durability of un-synced data is not tested',
                               'crashing before a non-mutating call is state-equivalent to crashing before the next mutating one',
                               'crash-restart-crash histories are two operations deep: a quarter of the triples continue from two '
                               'of their own crash states with one further operation (every kill point of it swept)',
                           ], required_counters=['c13_crash_states_judged', 'c13_triples_fully_swept', 'c13_kill_before_rename',
                                                 'c13_kill_before_write', 'c13_reader_processes',
                                                 'c13_second_crash_states_judged', 'c13_second_kill_before_rename'])


def run_concmon(prop, tier, t0):
    from kv import concmon
    opts = {'quick': {'cases': 1600, 'budget_s': 60, 'free_every': 5},
            'thorough': {'cases': 60000, 'budget_s': 1500, 'free_every': 4, 'dfs_bound': 2, 'dfs_max_runs': 700,
                         'dfs_budget_s': 420}}[tier]
    merged, problems = common.run_shards('concmon', prop, tier, common.NCPU, opts,
                                         timeout=opts['budget_s'] * 3 + 240)
    c = merged['counters']
    if c.get('c14_watchdog_expired', 0) > max(3, merged['cases'] // 20):
        problems.append('%d schedules hit the watchdog' % c['c14_watchdog_expired'])
    return common.conclude(prop, tier, t0, merged, problems, concmon.RULE, 200, 'concmon',
                           assumptions=ASSUME_COMMON + [
                               'gated schedules serialise the processes at libc file-system-call granularity (open/read/'
                               'write/close/rename/unlink/rmdir/mkdir/stat/opendir...); sqlite byte-range locks (fcntl) are '
                               'not gated - a process spinning in sqlite\'s busy handler is treated as running and the '
                               'controller moves on after a 30 ms grace period',
                               'writers only store (never delete), values are unique per write, so every read is '
                               'attributable; wall-clock never decides a verdict (watchdog expiry = dropped schedule, counted)',
                           ], required_counters=['c14_schedules_gated', 'c14_schedules_free', 'c14_overlapping_op_pairs', 'c14_runs_with_identically_seeded_writers',
                                                 'c14_gate_grants', 'c14_forked_handle_runs', 'c14_idle_reader_runs'])


ENGINES = {'C14': run_concmon, 'C13': run_crashmon, 'C19': run_valmon, 'C03': run_archmon, 'C08': run_archmon, 'C04': run_procmon, 'C17': run_procmon}
for _p in CACHEMON:
    ENGINES[_p] = run_cachemon
for _p in KEYMON:
    ENGINES[_p] = run_keymon


def do_replay(prop, path):
    with open(path) as f:
        v = json.load(f)
    engine = v.get('engine', 'cachemon')
    common.import_klepto()
    mod = __import__('kv.' + engine, fromlist=['replay'])
    got = mod.replay(v, prop)
    findings = common.load_findings()
    new = [x for x in got if common.classify(prop, x, findings) is None]
    for x in got:
        print('%s kind=%s: %s' % ('VIOLATION' if x in new else 'KNOWN', x.get('kind'), x.get('msg')))
    if new:
        print('VIOLATION property=%s replay=%s' % (prop, path))
        return 1
    print('%s: replay did not violate' % prop)
    return 0


def main(argv=None):
    ap = argparse.ArgumentParser()
    ap.add_argument('prop')
    ap.add_argument('--tier', default=None)
    ap.add_argument('--replay', default=None)
    a = ap.parse_args(argv)
    prop = a.prop.upper()
    if a.replay:
        return do_replay(prop, a.replay)
    if prop not in ENGINES:
        print('no check registered for %s' % prop)
        return 2
    t0 = time.time()
    return ENGINES[prop](prop, common.tier(a.tier), t0)


if __name__ == '__main__':
    sys.exit(main())
