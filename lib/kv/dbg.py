"""debug helper: python -m kv.dbg <engine> <prop> <n> [start]  -> group violations by kind"""
import sys, json, time
from kv import common
common.import_klepto()
def main():
    eng, prop, n = sys.argv[1], sys.argv[2], int(sys.argv[3])
    start = int(sys.argv[4]) if len(sys.argv) > 4 else 0
    mod = __import__('kv.' + eng, fromlist=['x'])
    from kv import gen
    t = time.time(); allv = {}; tot = {}
    for i in range(start, start + n):
        rng = gen.make_rng(eng, prop, common.seed(), i)
        case = mod.gen_case(rng, prop)
        case['selftest'] = True
        out = mod.run_case(case, prop)
        if isinstance(out, tuple):
            r, viol = out[0], out[1]
        else:
            r, viol = out, out.viol
            for k, v in out.cnt.items(): tot[k] = tot.get(k, 0) + v
        for v in viol:
            key = (v['property'], v['kind'], tuple(v.get('mech') or ()))
            if key not in allv: allv[key] = [0, v, i]
            allv[key][0] += 1
    print(n, 'cases', round(time.time() - t, 1), 's', tot)
    for k, (c, v, i) in sorted(allv.items()):
        print('==', k, 'count', c, 'case#', i)
        print('   ', v['msg'][:400])
        print('   cfg', json.dumps(v['case'].get('cfg') or v['case'].get('backend')), v['case'].get('cached'), '| sig', v['case'].get('sig'), '| step', v.get('step'))
        ops = v['case'].get('ops') or []
        s = v.get('step') or 0
        if ops: print('   ops', json.dumps(ops[max(0, s - 6): s + 1])[:900])
        else: print('   case', json.dumps(dict((k, x) for k, x in v['case'].items() if k != 'ops'))[:700])
main()
