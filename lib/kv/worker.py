"""Worker entry point: python -m kv.worker '<json spec>' -> writes spec['out']."""
import importlib
import json
import os
import sys
import faulthandler


def main():
    faulthandler.enable()
    spec = json.loads(sys.argv[1])
    from kv import common
    common.import_klepto()
    mod = importlib.import_module('kv.' + spec['module'])
    res = mod.run_shard(spec['prop'], spec['tier'], spec['seed'], spec['shard'],
                        spec['nshards'], spec.get('opts') or {})
    tmp = spec['out'] + '.tmp'
    with open(tmp, 'w') as f:
        json.dump(res, f, default=repr)
    os.replace(tmp, spec['out'])


if __name__ == '__main__':
    main()
