"""archmon: archive refinement engine (C03) and cache/archive synchronisation algebra (C08).

Random operation sequences are applied to a real archive and to a Python dict; after every
step the returned value / exception class and a fresh read of the archive's contents are
compared with the model. Values are unique per write so cross-talk shows as a wrong value.
"""
import os
import time

from kv import gen
from kv.common import cwd_or_gone, digest, import_klepto, Scratch
from kv.gen import enc, dec, backend_name

klepto = import_klepto()
from klepto import archives as KA  # noqa: E402
from klepto import _archives as _KA  # noqa: E402

BIG = 'L' * 12000

# ---------------------------------------------------------------------------------------
# configurations

CONFIGS = []
for b in gen.BACKENDS:
    if b['kind'] == 'dict':
        continue
    CONFIGS.append(dict(b))
CONFIGS.append({'kind': 'file', 'serialized': True, 'protocol': 0})
CONFIGS.append({'kind': 'file', 'serialized': True, 'protocol': 5})
CONFIGS.append({'kind': 'dir', 'serialized': True, 'protocol': 3})
CONFIGS.append({'kind': 'file', 'serialized': False, 'protocol': None, 'noext': True})


def is_json(b):
    return b.get('protocol') == 'json' and not (b.get('compression') or b.get('memmode') or b.get('fast'))


def is_source(b):
    return b['kind'] in ('file', 'dir') and not b.get('serialized', True)


def key_pool(b, rng):
    """keys this backend documents as acceptable, incl. keys klepto's own keymaps produce"""
    from klepto.keymaps import keymap, stringmap, picklemap, hashmap
    k = b['kind']
    raw = [keymap()(1, x=2), keymap()('a'), keymap()(7), keymap(flat=True)(1, 2, y=3)]
    strs = [stringmap()(1, x=2), stringmap(flat=False)(1, x=2), 'a', 'b', 'key with space', 'x.y', u'ünï',
            'UPPER', 'upper']
    hexs = [hashmap(algorithm='md5')(1, x=2), hashmap(algorithm='sha1')('a'), hashmap(algorithm='md5')(2)]
    pkl = [picklemap(serializer='pickle')(1, x=2), picklemap(serializer='dill')('a'), picklemap(serializer='pickle')(3)]
    ints = [1, 7, -3, 0]
    hostile = ['a-b', 'a_b', '1', '.I_0123456789abcdef0123456789abcdef', 'RANK_0', 'K_means', 'xK_K_y',
               'P' * 215 + 'a', 'P' * 215 + 'b',       # long keys that differ only at the very end
               'Q' * 246 + 'a', 'Q' * 246 + 'b']       # ... and ones just below the 255-byte limit of a directory entry name
    if k in ('dict_archive', 'null'):
        return raw + strs + hexs + pkl + ints + hostile + [None, 2.5]
    if is_json(b):
        return strs + hexs + hostile
    if k == 'sql':
        return strs + hexs + pkl + ints + hostile
    if k == 'dir' and is_source(b):
        return hexs + pkl + ['abc', 'k1', 'k2']
    if k == 'file' and is_source(b):
        return [x for x in raw if '<' not in repr(x)] + strs + hexs + pkl + ints + hostile
    return raw + strs + hexs + pkl + ints + hostile


class Uniq(object):
    def __init__(self):
        self.n = 0

    def __call__(self):
        self.n += 1
        return self.n


def value_pool(b, rng, u, sized=False):
    """a value this backend can encode; unique-ish so a read identifies its write"""
    n = u()
    common = [n, -n, n + 0.5, 'v%d' % n, None, BIG + str(n), '']
    if b['kind'] == 'sql':
        return rng.choice(common + [b'\x00\xff%d' % n, '%d.0' % n, '00%d' % n])   # numeric-looking text stays text
    if is_json(b):
        return rng.choice(common + [[n, [2, 3]], {'k': [n, 2]}, True, float('inf')])
    if is_source(b):
        return rng.choice(common + [(n, 'a'), [n, [2, 3]], {'k': [n, 2]}, b'\x00\xff', True])
    if sized and b['kind'] in ('file', 'dir') and rng.random() < 0.004:
        # a value whose pickle ends exactly on (or one byte around) a block boundary of the writers underneath
        return {'__padded__': [rng.choice([1 << 16, 1 << 20]) + rng.choice([0, 0, 0, 1, -1]), b.get('protocol')]}
    return rng.choice(common + [(n, 'a'), [n, [2, 3]], {'k': [n, 2]}, b'\x00\xff', float('inf'), {n: 2},
                                frozenset([n]), True, {'__fn__': n}])


def make_value(v):
    """materialise special values (functions) at run time"""
    if isinstance(v, dict) and '__fn__' in v:
        n = v['__fn__']
        return eval('lambda x: x + %d' % n)
    if isinstance(v, dict) and '__padded__' in v:
        return padded_value(*v['__padded__'])
    if isinstance(v, dict) and '__noisy__' in v:
        # text that compresses only by half: its compressed form is still larger than a 1 MiB block
        import random as _r
        return _r.Random(v['__noisy__']).randbytes(1600000).hex()
    return v


_PADDED = {}


def padded_value(target, proto):
    """a bytes value whose pickle (dill, this protocol) is exactly `target` bytes long: block and buffer boundaries
    (2**16, 2**20, ...) of the writers underneath an archive are where lengths go wrong"""
    key = (target, proto)
    if key not in _PADDED:
        import dill
        n = max(1, target - 32)
        for _ in range(6):
            L = len(dill.dumps(b'x' * n, protocol=proto))
            if L == target:
                break
            n += target - L
        _PADDED[key] = n
    return b'x' * _PADDED[key]


STRICT = [False]


def same_value(a, b):
    """equality of a stored value with the model's (functions: by behaviour)"""
    if callable(a) and callable(b):
        try:
            return a(1) == b(1)
        except Exception:
            return False
    try:
        if type(a) in (int, float, bool) and type(b) in (int, float, bool):
            # a dict hands back the object that was stored last: 1, 1.0 and True are equal but not interchangeable
            # (the sqlite fallback stores a bool as an integer by design, so it is compared by value)
            return a == b and (type(a) is type(b) or not STRICT[0])
        return bool(a == b)
    except Exception:
        return False


def same_dict(real, model):
    if set(real.keys()) != set(model.keys()):
        return False
    return all(same_value(real[k], model[k]) for k in model)


def unencodable(b):
    if b['kind'] in ('dict_archive', 'null') or is_source(b):
        return None
    if b['kind'] == 'sql':
        return 'list'
    if is_json(b):
        return 'set'
    return 'generator'


def make_unencodable(kind):
    if kind == 'list':
        return [1, 2]
    if kind == 'set':
        return set([1, 2])
    return (i for i in range(3))


def open_archive(b, root, cached=False, suffix='', public=True):
    a = gen.build_archive(klepto, b, root, public=False, suffix=suffix)
    if b['kind'] == 'null':
        a = _KA.null_archive()
    if public and b['kind'] in ('file', 'dir', 'sql', 'dict_archive', 'null'):
        # the public constructors (klepto.archives.X(name, cached=...)) on the same location
        a = public_open(b, root, cached, suffix)
    elif cached:
        a = KA.cache(archive=a)
    return a


def public_open(b, root, cached, suffix=''):
    k = b['kind']
    if k == 'dict_archive':
        return KA.dict_archive('mem', cached=cached)
    if k == 'null':
        return KA.null_archive('nul', cached=cached)
    if k == 'file':
        ext = '.py' if not b.get('serialized', True) else ('.json' if b.get('protocol') == 'json' else '.pkl')
        if b.get('noext'):
            ext = ''      # the name as a user would type it; klepto appends '.py' for source-text archives itself
        return KA.file_archive(os.path.join(root, 'arch%s%s' % (suffix, ext)), cached=cached,
                               serialized=b.get('serialized', True), protocol=b.get('protocol'))
    if k == 'dir':
        kw = {'serialized': b.get('serialized', True), 'protocol': b.get('protocol')}
        for o in ('compression', 'memmode', 'fast', 'permissions'):
            if b.get(o):
                kw[o] = b[o]
        return KA.dir_archive(os.path.join(root, 'archdir%s' % suffix), cached=cached, **kw)
    if k == 'sql':
        db = 'sqlite:///:memory:' if b.get('memory') else 'sqlite:///' + os.path.join(root, 'arch.db')
        return KA.sqltable_archive('%s?table=memo%s' % (db, suffix), cached=cached)
    raise ValueError(k)


# ---------------------------------------------------------------------------------------
# C03: operation sequences

OPS = ['set', 'set', 'set', 'get', 'del', 'contains', 'len', 'iter', 'keys', 'values', 'items',
       'getd', 'pop', 'popd', 'popitem', 'popkeys', 'popkeysd', 'setdefault', 'update', 'updatekw',
       'clear', 'copy', 'eq', 'badset']


def gen_case_c03(rng):
    b = dict(rng.choice(CONFIGS))
    cached = rng.random() < 0.25
    n = rng.choice([20, 40, 60])
    pool = key_pool(b, rng)
    if b['kind'] == 'dir':
        # the known file-name aliasing is exercised in a third of the dir cases only
        if rng.random() < 0.67:
            pool = [k for k in pool if k not in ('a_b', '1')]
    keys = rng.sample(pool, min(len(pool), rng.choice([3, 5, 8])))
    longk = [k for k in pool if isinstance(k, str) and len(k) > 200]
    if len(longk) >= 2 and rng.random() < 0.25:
        keys = [k for k in keys if k not in longk] + (longk[2:4] if (len(longk) >= 4 and rng.random() < 0.5) else longk[:2])
    if b['kind'] == 'dir' and not is_source(b) and rng.random() < 0.1:
        pk = rng.choice(['data/x.csv', '/abs/path', "('a/b',)"])     # path-like keys (recorded finding)
        keys += [pk, pk.replace('/', '_')]       # ... and the key a 'flattened' path would collide with
    if b['kind'] == 'dir' and not is_source(b) and not is_json(b) and rng.random() < 0.04:
        keys += [1, 1.0]                                                      # ==-equal keys of different type (recorded finding)
    if b['kind'] == 'dir' and not is_source(b) and rng.random() < 0.04:
        keys.append('L' * 300)     # entry directory name beyond the 255-byte limit (recorded finding)
    u = Uniq()
    ops = []
    last = {}
    for _ in range(n):
        o = rng.choice(OPS)
        k = rng.choice(keys)
        if o in ('set', 'setdefault'):
            v = value_pool(b, rng, u, sized=True)
            prev = last.get(repr(k))
            if o == 'set' and type(prev) in (int, float) and prev == prev and abs(prev) < 1e15 and rng.random() < 0.25:
                # overwrite with an ==-equal value of another type: the entry must now hold the new object
                v = float(prev) if type(prev) is int else (int(prev) if prev == int(prev) else prev + 1)
                if prev in (0, 1) and rng.random() < 0.4:
                    v = bool(prev) if type(prev) is not bool else int(prev)
            last[repr(k)] = v
            ops.append([o, enc(k), enc(v)])
        elif o in ('update',):
            ks = rng.sample(keys, min(len(keys), rng.choice([1, 2, 3])))
            ops.append([o, [[enc(x), enc(value_pool(b, rng, u, sized=True))] for x in ks]])
        elif o == 'updatekw':
            ops.append([o, {'kwa': enc(value_pool(b, rng, u))}])
        elif o in ('popkeys', 'popkeysd'):
            ks = rng.sample(keys, min(len(keys), rng.choice([1, 2])))
            if rng.random() < 0.3:
                ks.append(rng.choice(ks))       # the same key named twice: all-or-nothing still applies
            # (the keys are handed over as a list, a tuple, or a one-shot generator)
            ops.append([o, [enc(x) for x in ks], rng.choice(['list', 'list', 'tuple', 'gen'])])
        elif o == 'badset':
            if rng.random() < 0.4:
                # a batch: one storable item, then one that cannot be encoded
                ops.append(['badupdate', enc(k), enc(value_pool(b, rng, u))])
            else:
                ops.append([o, enc(k)])
        elif o in ('clear',) and rng.random() < 0.6:
            ops.append(['len'])
        else:
            ops.append([o, enc(k)])
    return {'backend': b, 'cached': cached, 'ops': ops, 'seed': rng.randrange(1 << 30)}


def dir_alias(b, keys):
    """harness-side classifier: do two distinct keys of this case share a dir_archive entry name?"""
    if b['kind'] != 'dir':
        return None
    from kv.cachemon import dir_fname
    groups = {}
    for k in keys:
        try:
            fn = dir_fname(k)
        except Exception:
            continue
        g = groups.setdefault(fn, [])
        if not any(type(x) is type(k) and x == k for x in g):
            g.append(k)
    out = [k for g in groups.values() if len(g) > 1 for k in g]     # every key that shares its name with another
    return out or None


class Run03(object):
    def __init__(self, case, root):
        self.case = case
        self.b = case['backend']
        STRICT[0] = self.b['kind'] != 'sql'
        self.root = root
        self.viol = []
        self.cnt = {}
        self.model = {}
        self.cached = case['cached']
        self.a = open_archive(self.b, root, cached=self.cached)
        # a second archive under another name in the same parent (isolation clause)
        self.other = open_archive(self.b, root, cached=False, suffix='B') if self.b['kind'] != 'null' else None
        self.other_model = {}
        if self.other is not None and self.b['kind'] != 'dict_archive':
            try:
                self.other['sentinel-entry'] = 12345
                self.other_model = {'sentinel-entry': 12345}
            except Exception:
                self.other = None
        self.keys_used = []
        self.step = -1

    def note(self, c, n=1):
        self.cnt[c] = self.cnt.get(c, 0) + n

    def bad(self, kind, msg, keys=()):
        mech = []
        al = dir_alias(self.b, self.keys_used)
        if al is not None and (not keys or any(k in al for k in keys)):
            mech = ['dir-fname-alias']
        if self.b['kind'] == 'dir':
            from kv.cachemon import dir_fname
            def _long(k):
                try:
                    return len(('K_' + dir_fname(k)).encode('utf-8')) > 255
                except Exception:
                    return False
            if any(_long(k) for k in (keys or self.keys_used)):
                mech = mech + ['dir-entry-name-too-long']
            def _sep(k):
                try:
                    return os.sep in dir_fname(k)
                except Exception:
                    return False
            def _eqtwins(ks):
                ks = [k for k in ks if type(k) in (int, float, bool)]
                return any(a == b and type(a) is not type(b) for a in ks for b in ks)
            if _eqtwins(self.keys_used):
                # (1, 1.0 and True are one dict key; the directory archive names their entries apart)
                mech = mech + ['dir-splits-equal-keys-of-different-type']
            if any(_sep(k) for k in self.keys_used):
                # (a key whose entry name contains the path separator is stored as nested directories: the listing
                # shows the first path component instead - any operation that lists the archive is affected)
                mech = mech + ['dir-key-with-path-separator']
        self.viol.append({'property': 'C03', 'kind': kind, 'msg': msg[:600], 'mech': mech,
                          'step': self.step, 'case': self.case})

    def contents(self):
        a = self.a
        if self.cached:
            return dict(a)
        return dict(a.items())

    def apply(self, fn_real, fn_model, what, keys=()):
        """run the same operation on archive and model; compare outcome"""
        try:
            r = ('ret', fn_real())
        except KeyError:
            r = ('KeyError', None)
        except Exception as e:
            r = ('exc:' + type(e).__name__, str(e)[:120])
        try:
            m = ('ret', fn_model())
        except KeyError:
            m = ('KeyError', None)
        self.note('c03_ops')
        if r[0] != m[0]:
            self.bad('outcome-differs', '%s: archive %s %s, a dict %s %s' % (what, r[0], _s(r[1]), m[0], _s(m[1])), keys)
            return r, m, False
        return r, m, True

    def run(self):
        null = self.b['kind'] == 'null' and not self.cached
        for i, op in enumerate(self.case['ops']):
            self.step = i
            o = op[0]
            a, M = self.a, self.model
            k = dec(op[1]) if len(op) > 1 and o not in ('update', 'updatekw', 'popkeys', 'popkeysd') else None
            if k is not None:
                self.keys_used.append(k)
                try:
                    present = k in M
                except TypeError:
                    present = False
                if o in ('set', 'del', 'pop', 'popd') and present:
                    self.note('c03_overwrite_or_delete_of_present_key')
                if o in ('get', 'del', 'pop', 'popd', 'getd') and not present:
                    self.note('c03_ops_on_missing_key')
            try:
                self.one(o, op, a, M, k, null)
            except Exception as e:
                import traceback
                self.bad('harness-visible-exception', '%s raised %s: %s' % (o, type(e).__name__, str(e)[:200]),
                         [k] if k is not None else ())
                self.tb = traceback.format_exc()
                break
            # contents after every step
            try:
                real = self.contents()
            except Exception as e:
                self.bad('archive-unreadable', 'after %s: reading the contents raised %s: %s'
                         % (o, type(e).__name__, str(e)[:160]), [k] if k is not None else ())
                break
            self.note('c03_content_checks')
            if null:
                if real:
                    self.bad('null-archive-retained', 'null archive holds %r' % list(real)[:3])
                M.clear()
            elif not same_dict(real, M):
                self.bad('contents-differ', 'after %s: archive keys %s vs dict keys %s (or values differ)'
                         % (o, sorted(map(repr, real))[:6], sorted(map(repr, M))[:6]),
                         [x for x in set(real) ^ set(M)] or ([k] if k is not None else ()))
                # resynchronise the model so one defect is reported once
                self.model = dict(real)
            if not self.cached and gen.persistent(self.b) and (i % 5 == 2 or getattr(self, 'force_second', False)):
                self.force_second = False
                self.note('c03_second_handle_checks')
                try:
                    h = open_archive(self.b, self.root, cached=False, public=False)
                    seen = dict(h.items())
                    conn = getattr(h, '_conn', None)
                    if conn is not None:
                        conn.close()
                except Exception as e:
                    seen = {'<second handle failed>': '%s: %s' % (type(e).__name__, str(e)[:100])}
                if not same_dict(seen, self.model):
                    self.bad('second-handle-sees-other-contents', 'after %s: a second handle on the same archive sees %s, '
                             'this handle / a dict %s' % (o, sorted(map(repr, seen))[:6], sorted(map(repr, self.model))[:6]),
                             [x for x in set(seen) ^ set(self.model)])
            if self.cached and i % 7 == 6:
                try:
                    a.sync(clear=True)
                    back = dict(a.archive.items())
                except Exception as e:
                    self.bad('archive-unreadable', 'after %s: sync / reading the archive behind the cache raised %s: %s'
                             % (o, type(e).__name__, str(e)[:160]), [k] if k is not None else ())
                    break
                self.note('c03_cached_sync_checks')
                if self.b['kind'] != 'null' and not same_dict(back, self.model):
                    self.bad('cached-archive-differs-after-sync', 'archive behind the cache holds %s, cache %s'
                             % (sorted(map(repr, back))[:6], sorted(map(repr, self.model))[:6]))
            if self.other is not None and i % 5 == 4:
                self.note('c03_isolation_checks')
                try:
                    oc = dict(self.other.items())
                except Exception as e:
                    oc = {'<unreadable>': repr(e)}
                if not same_dict(oc, self.other_model):
                    self.bad('other-archive-changed', 'archive stored under another name changed: %r'
                             % sorted(map(repr, oc))[:5])
                    self.other_model = dict(oc)
        return self

    def one(self, o, op, a, M, k, null):
        if o == 'set':
            v = make_value(dec(op[2]))
            a[k] = v
            M[k] = v
            self.note('c03_ops')
        elif o == 'badset':
            kind = unencodable(self.b)
            if kind is None or self.cached:
                return
            before = dict(M)
            try:
                a[k] = make_unencodable(kind)
                stored = True
            except Exception:
                stored = False
            self.note('c03_failed_store_checks')
            if stored:
                # the backend accepted it after all: the value must then be there
                try:
                    got = a[k]
                except Exception:
                    got = None
                # treat as unknown content; drop the key to continue
                try:
                    del a[k]
                except Exception:
                    pass
                M.pop(k, None)
                self.note('c03_unencodable_accepted')
            # (the content comparison after the step checks "unchanged" and "still usable")
        elif o == 'badupdate':
            kind = unencodable(self.b)
            if kind is None or self.cached:
                return
            v = make_value(dec(op[2]))
            try:
                a.update([(k, v), ('zz-unencodable', make_unencodable(kind))])
            except Exception:
                pass
            self.note('c03_failed_update_checks')
            try:
                if 'zz-unencodable' in a:      # (no write unless there is something to remove: a write would commit)
                    a.pop('zz-unencodable', None)
            except Exception:
                pass
            # the storable item may or may not have been kept - but whatever this handle now reports is what every
            # other handle must see as well (checked right after this step)
            try:
                kept = a[k]
                if same_value(kept, v):
                    M[k] = v
            except Exception:
                pass
            self.force_second = True
        elif o == 'get':
            r, m, ok = self.apply(lambda: a[k], lambda: M[k], 'a[%r]' % (k,), [k])
            if ok and r[0] == 'ret' and not null and not same_value(r[1], m[1]):
                self.bad('wrong-value', 'a[%r] returned %r, dict holds %r' % (k, _s(r[1]), _s(m[1])), [k])
        elif o == 'del':
            self.apply(lambda: a.__delitem__(k), lambda: M.__delitem__(k), 'del a[%r]' % (k,), [k])
        elif o == 'contains':
            r, m, ok = self.apply(lambda: k in a, lambda: k in M, '%r in a' % (k,), [k])
            if ok and r[1] != m[1]:
                self.bad('contains-differs', '%r in archive is %r, in dict %r' % (k, r[1], m[1]), [k])
        elif o == 'len':
            r, m, ok = self.apply(lambda: len(a), lambda: len(M), 'len(a)')
            if ok and r[1] != m[1]:
                self.bad('len-differs', 'len(archive)=%r, len(dict)=%r' % (r[1], m[1]))
        elif o in ('iter', 'keys'):
            f = (lambda: sorted(map(repr, iter(a)))) if o == 'iter' else (lambda: sorted(map(repr, a.keys())))
            r, m, ok = self.apply(f, lambda: sorted(map(repr, M)), o)
            if ok and r[1] != m[1]:
                self.bad('iteration-differs', '%s gave %r, dict %r' % (o, r[1][:6], m[1][:6]))
        elif o == 'values':
            r, m, ok = self.apply(lambda: list(a.values()), lambda: list(M.values()), 'values()')
            if ok and (len(r[1]) != len(m[1]) or not all(any(same_value(x, y) for y in m[1]) for x in r[1])):
                self.bad('values-differ', 'values() gave %d items, dict %d' % (len(r[1]), len(m[1])))
        elif o == 'items':
            r, m, ok = self.apply(lambda: dict(a.items()), lambda: dict(M.items()), 'items()')
            if ok and not same_dict(r[1], m[1]):
                self.bad('items-differ', 'items() differs from the dict')
        elif o == 'getd':
            r, m, ok = self.apply(lambda: a.get(k, 'dflt'), lambda: M.get(k, 'dflt'), 'a.get(%r, d)' % (k,), [k])
            if ok and not same_value(r[1], m[1]):
                self.bad('wrong-value', 'a.get(%r, d) returned %r, dict %r' % (k, _s(r[1]), _s(m[1])), [k])
        elif o == 'pop':
            r, m, ok = self.apply(lambda: a.pop(k), lambda: M.pop(k), 'a.pop(%r)' % (k,), [k])
            if ok and r[0] == 'ret' and not same_value(r[1], m[1]):
                self.bad('wrong-value', 'a.pop(%r) returned %r, dict %r' % (k, _s(r[1]), _s(m[1])), [k])
        elif o == 'popd':
            r, m, ok = self.apply(lambda: a.pop(k, 'dflt'), lambda: M.pop(k, 'dflt'), 'a.pop(%r, d)' % (k,), [k])
            if ok and not same_value(r[1], m[1]):
                self.bad('wrong-value', 'a.pop(%r, d) returned %r, dict %r' % (k, _s(r[1]), _s(m[1])), [k])
        elif o == 'popitem':
            try:
                r = ('ret', a.popitem())
            except KeyError:
                r = ('KeyError', None)
            self.note('c03_ops')
            if r[0] == 'KeyError':
                if M:
                    self.bad('outcome-differs', 'popitem() raised KeyError on a non-empty archive')
            elif not M:
                self.bad('outcome-differs', 'popitem() returned %r from an empty archive' % (_s(r[1]),))
            else:
                pk, pv = r[1]
                if pk not in M or not same_value(pv, M[pk]):
                    self.bad('wrong-value', 'popitem() returned (%r, %r) which is not an item of the dict' % (pk, _s(pv)), [pk])
                M.pop(pk, None)
        elif o in ('popkeys', 'popkeysd'):
            if not hasattr(a, 'popkeys'):
                return     # klepto's extension; dict_archive/null_archive (like dict) do not offer it
            ks = [dec(x) for x in op[1]]
            self.keys_used.extend(ks)
            how = op[2] if len(op) > 2 else 'list'
            if how != 'list':
                self.note('c03_popkeys_with_%s' % how)

            def given():
                return tuple(ks) if how == 'tuple' else ((x for x in ks) if how == 'gen' else ks)
            if o == 'popkeysd':
                r, m, ok = self.apply(lambda: a.popkeys(given(), 'dflt'), lambda: [M.pop(x, 'dflt') for x in ks], 'popkeys(ks, d)', ks)
            else:
                def mpop():
                    shadow = dict(M)
                    [shadow.pop(x) for x in ks]      # all-or-nothing: KeyError before any removal
                    return [M.pop(x) for x in ks]
                r, m, ok = self.apply(lambda: a.popkeys(given()), mpop, 'popkeys(%s of ks)' % how, ks)
            if ok and r[0] == 'ret' and not (len(r[1]) == len(m[1]) and all(same_value(x, y) for x, y in zip(r[1], m[1]))):
                self.bad('wrong-value', 'popkeys returned %r, dict %r' % (_s(r[1]), _s(m[1])), ks)
        elif o == 'setdefault':
            v = make_value(dec(op[2]))
            r, m, ok = self.apply(lambda: a.setdefault(k, v), lambda: M.setdefault(k, v), 'setdefault(%r, v)' % (k,), [k])
            if ok and not null and not same_value(r[1], m[1]):
                self.bad('wrong-value', 'setdefault(%r) returned %r, dict %r' % (k, _s(r[1]), _s(m[1])), [k])
        elif o == 'update':
            items = [(dec(x), make_value(dec(v))) for x, v in op[1]]
            self.keys_used.extend(x for x, _ in items)
            # dict.update takes a mapping or an iterable of pairs (alternating by step)
            if self.step % 3 == 1 and all(_hashable(x) for x, _ in items):
                a.update(list(items))
                self.note('c03_update_with_pairs')
            else:
                a.update(dict(items))
            M.update(dict(items))
            self.note('c03_ops')
        elif o == 'updatekw':
            if is_json(self.b) or self.b['kind'] in ('sql',) or not is_source(self.b) or True:
                v = make_value(dec(op[1]['kwa']))
                if self.b['kind'] == 'dir' and is_source(self.b):
                    return
                a.update({}, kwa=v)
                M.update({}, kwa=v)
                self.keys_used.append('kwa')
                self.note('c03_ops')
        elif o == 'clear':
            a.clear()
            M.clear()
            self.note('c03_ops')
        elif o == 'copy':
            self.check_copy(a, M)
        elif o == 'eq':
            self.check_eq(a, M)

    def check_copy(self, a, M):
        if self.cached or self.b['kind'] == 'null':
            return
        self.note('c03_copy_checks')
        b = self.b
        name = None
        if b['kind'] == 'file':
            ext = '.py' if is_source(b) else ('.json' if is_json(b) else '.pkl')
            if b.get('noext'):
                ext = ''         # the name as a user would type it (klepto appends '.py' for source-text archives itself)
            name = os.path.join(self.root, 'copy%d%s' % (self.step, ext))
        elif b['kind'] == 'dir':
            name = os.path.join(self.root, 'copydir%d' % self.step)
        elif b['kind'] == 'sql':
            if b.get('memory'):
                return
            name = 'sqlite:///%s?table=copy%d' % (os.path.join(self.root, 'arch.db'), self.step)
        else:
            name = 'copy%d' % self.step
        c = a.copy(name)
        cc = dict(c.items())
        if not same_dict(cc, M):
            self.bad('copy-not-equal', 'copy(name) holds %s, original %s' % (sorted(map(repr, cc))[:5], sorted(map(repr, M))[:5]))
            return
        # independence: mutate the copy, the original must not change (and vice versa)
        kk = 'copy-only-key' if not (b['kind'] == 'dir' and is_source(b)) else 'copyonlykey'
        c[kk] = 1
        if not same_dict(dict(a.items()), M):
            self.bad('copy-not-independent', 'writing to the copy changed the original')
        try:
            c.pop(kk)
        except Exception:
            pass

    def check_eq(self, a, M):
        if self.cached or self.b['kind'] == 'null':
            return
        if any(callable(v) for v in M.values()):
            return     # functions restored from two stores are different objects; == cannot hold
        self.note('c03_eq_checks')
        b = self.b
        # ... against an in-memory archive, from either side (equality between archives compares contents)
        if b['kind'] != 'dict_archive':
            mem = _KA.dict_archive()
            mem.update(dict(M))
            self.note('c03_eq_cross_type_checks')
            for x, y, what in ((a, mem, 'archive == dict_archive'), (mem, a, 'dict_archive == archive')):
                if not (x == y) or (x != y):
                    self.bad('eq-wrong', '%s: equal contents compare unequal' % what)
                    return
            mem['only-in-memory'] = 1
            for x, y, what in ((a, mem, 'archive == dict_archive'), (mem, a, 'dict_archive == archive')):
                if (x == y) or not (x != y):
                    self.bad('eq-wrong', '%s: different contents compare equal (%d vs %d entries)' % (what, len(M), len(M) + 1))
                    return
        # an equal archive of the same type elsewhere, and one that differs
        other = open_archive(b, self.root, cached=False, suffix='E%d' % self.step)
        try:
            other.update(dict(M))
            if not (a == other) or (a != other):
                self.bad('eq-wrong', 'archives with equal contents compare unequal')
            other['eq-extra'] = 1
            if (a == other) or not (a != other):
                self.bad('eq-wrong', 'archives with different contents compare equal')
            other.pop('eq-extra')
            if M:
                # same size, same values, one key renamed (the value may well be None)
                k0 = sorted(M, key=repr)[0]
                newk = 'eqrenamed' if not (b['kind'] == 'dir' and is_source(b)) else 'eqrenamed'
                other.pop(k0)
                other[newk] = M[k0]
                if (a == other) or not (a != other):
                    self.bad('eq-wrong', 'archives that differ in one key (%r vs %r, same value %s) compare equal'
                             % (k0, newk, _s(M[k0])))
        finally:
            try:
                other.__drop__()
            except Exception:
                pass
        if b['kind'] in ('file', 'dir') or (b['kind'] == 'sql' and not b.get('memory')):
            # an archive with the *same last path component / table name* stored elsewhere is another archive
            sub = os.path.join(self.root, 'elsewhere%d' % self.step)
            os.makedirs(sub)
            twin = open_archive(b, sub, cached=False)
            self.note('c03_eq_same_basename_checks')
            try:
                twin.update(dict(M))
                twin['only-in-the-twin'] = 2
                if (a == twin) or not (a != twin):
                    self.bad('eq-wrong', 'two archives with the same base name in different places and different '
                             'contents compare equal')
                if not same_dict(dict(a.items()), M):
                    self.bad('other-archive-changed', 'writing to an archive with the same base name stored elsewhere '
                             'changed this one')
                twin.pop('only-in-the-twin')
                if not (a == twin) or (a != twin):
                    self.bad('eq-wrong', 'archives with equal contents (same base name, different places) compare unequal')
            finally:
                conn = getattr(twin, '_conn', None)
                if conn is not None:
                    conn.close()
                import shutil
                shutil.rmtree(sub, ignore_errors=True)


def _hashable(x):
    try:
        hash(x)
        return True
    except TypeError:
        return False


def _s(v):
    r = repr(v)
    return r if len(r) < 60 else r[:57] + '...'


def run_case_c03(case):
    cwd0 = cwd_or_gone()
    with Scratch('am') as root:
        r = Run03(case, root).run()
        if cwd_or_gone() != cwd0:
            r.bad('working-directory-changed', 'the operations left the process in %s (it started in %s): every archive '
                  'addressed by a relative name now resolves elsewhere' % (cwd_or_gone(), cwd0))
            os.chdir(cwd0)
        for x in (r.a, r.other):
            conn = getattr(getattr(x, 'archive', x), '_conn', None)
            if conn is not None:
                try:
                    conn.close()
                except Exception:
                    pass
        return r


# ---------------------------------------------------------------------------------------
# C08: synchronisation algebra

OPS08 = ['cset', 'cset', 'cdel', 'cpop', 'cupdate', 'cclear', 'aset', 'aset', 'adel', 'dump', 'dumpk',
         'load', 'loadk', 'sync', 'syncclear', 'off', 'on', 'on', 'open', 'drop', 'assign', 'baddump']


def gen_case_c08(rng):
    b = dict(rng.choice([c for c in CONFIGS]))
    pool = [k for k in key_pool(b, rng) if k not in ('a_b', '1', '.I_0123456789abcdef0123456789abcdef')]
    if b['kind'] == 'dir':
        # the synchronisation algebra is judged on keys that dir_archive keeps apart (its known
        # file-name aliasing is C03's subject): one key per entry name
        from kv.cachemon import dir_fname
        seen, uniq = set(), []
        for k in pool:
            fn = dir_fname(k)
            if fn not in seen:
                seen.add(fn); uniq.append(k)
        pool = uniq
    keys = rng.sample(pool, min(len(pool), rng.choice([3, 4, 6])))
    u = Uniq()
    ops = []
    used = {}
    for _ in range(rng.choice([20, 40, 60])):
        o = rng.choice(OPS08)
        if o in ('cset', 'aset'):
            k = rng.choice(keys)
            v = value_pool(b, rng, u, sized=True)
            hist = used.setdefault(repr(k), [])
            if hist and rng.random() < 0.3:
                v = rng.choice(hist)          # a value this key held before (A -> B -> A histories)
            elif not isinstance(v, dict):
                hist.append(v)
            ops.append([o, enc(k), enc(v)])
        elif o in ('cdel', 'cpop', 'adel'):
            ops.append([o, enc(rng.choice(keys))])
        elif o == 'cupdate':
            ops.append([o, [[enc(k), enc(value_pool(b, rng, u))] for k in rng.sample(keys, 2)]])
        elif o in ('dumpk', 'loadk'):
            ops.append([o, [enc(k) for k in rng.sample(keys + ['absent-key'], rng.choice([1, 2]))]])
        elif o == 'baddump':
            ops.append([o, int(rng.random() < 0.4)])
        else:
            ops.append([o])
    return {'backend': b, 'ops': ops, 'seed': rng.randrange(1 << 30)}


class Run08(object):
    def __init__(self, case, root):
        self.case, self.b, self.root = case, case['backend'], root
        STRICT[0] = False
        self.viol, self.cnt = [], {}
        self.arch = open_archive(self.b, root, cached=False, public=False)
        if self.b['kind'] == 'null':
            self.c = KA.cache()
            self.arch = None
        else:
            self.c = KA.cache(archive=self.arch)
        self.M = {}             # model of the in-memory cache
        self.A = {}             # model of the archive object we built (attached or parked)
        self.on = self.arch is not None
        self.parked = False     # our archive is parked in the swap slot
        self.have = self.arch is not None   # the cache still references our archive somewhere
        self.n_open = 0
        self.step = -1
        self.orig = self.arch

    def note(self, c, n=1):
        self.cnt[c] = self.cnt.get(c, 0) + n

    def fresh_view(self):
        """contents of our (persistent) archive as a second handle on the same location sees them"""
        h = open_archive(self.b, self.root, cached=False, public=False)
        try:
            return dict(h.items())
        finally:
            conn = getattr(h, '_conn', None)
            if conn is not None:
                conn.close()

    def bad(self, kind, msg):
        self.viol.append({'property': 'C08', 'kind': kind, 'msg': msg[:600], 'mech': [], 'step': self.step,
                          'case': self.case})

    def cur(self):
        """model dict of the currently attached archive (None when detached / null)"""
        return self.A if (self.on and self.have and not self.parked) else None

    def run(self):
        for i, op in enumerate(self.case['ops']):
            self.step = i
            try:
                self.one(op)
            except Exception as e:
                self.bad('operation-raised', '%s raised %s: %s' % (op[0], type(e).__name__, str(e)[:200]))
                break
            try:
                self.check(op[0])
            except Exception as e:
                if not _raised_inside_klepto(e):
                    raise
                # reading the cache / archive back (keys, items, a second handle) failed inside klepto
                self.bad('archive-unreadable-after-operation', 'after %s: reading the cache and its archive back raised %s: %s'
                         % (op[0], type(e).__name__, str(e)[:200]))
            if self.viol:
                break
        return self

    def one(self, op):
        o, c = op[0], self.c
        M, A = self.M, self.A
        cur = self.cur()
        if o in ('dump', 'dumpk', 'load', 'loadk', 'sync', 'syncclear'):
            if cur is None:
                self.note('c08_sync_ops_while_off')
            elif any(k in cur and not same_value(M[k], cur[k]) for k in M):
                self.note('c08_sync_ops_with_conflicting_values')
        if o == 'cset':
            k, v = dec(op[1]), make_value(dec(op[2]))
            c[k] = v; M[k] = v
        elif o == 'cdel':
            k = dec(op[1])
            if k in M:
                del c[k]; del M[k]
        elif o == 'cpop':
            k = dec(op[1])
            c.pop(k, None); M.pop(k, None)
        elif o == 'cupdate':
            d = dict((dec(k), make_value(dec(v))) for k, v in op[1])
            c.update(d); M.update(d)
        elif o == 'cclear':
            c.clear(); M.clear()
        elif o == 'aset':
            if self.arch is not None:
                k, v = dec(op[1]), make_value(dec(op[2]))
                self.arch[k] = v; A[k] = v
        elif o == 'adel':
            if self.arch is not None:
                k = dec(op[1])
                if k in A:
                    del self.arch[k]; del A[k]
        elif o == 'baddump':
            # the cache holds one value the backend cannot encode when dump()/sync() is asked for: whether that raises or
            # not, no entry that was already archived may be lost or changed to something never cached, and the archive
            # stays usable
            kind = unencodable(self.b)
            if kind is None or cur is None or self.arch is not self.orig:
                return
            self.note('c08_dumps_with_unencodable_value')
            bad = make_unencodable(kind)
            c['zz-unencodable'] = bad
            raised = None
            try:
                if op[1]:
                    c.sync()
                else:
                    c.dump()
            except Exception as e:
                raised = e
            dict.pop(c, 'zz-unencodable', None)
            real = dict(c.archive.items())
            real.pop('zz-unencodable', None)
            try:
                c.archive.pop('zz-unencodable', None)
            except Exception:
                pass
            for k, v in cur.items():
                if k not in real:
                    self.bad('failed-dump-lost-archived-entry', 'dump()/sync() with one un-encodable cached value (%s) %s; '
                             'archived key %r is gone' % (kind, 'raised %s' % type(raised).__name__ if raised else 'returned', k))
                    return
                if not (same_value(real[k], v) or (k in M and same_value(real[k], M[k]))):
                    self.bad('failed-dump-changed-archived-entry', 'after a dump()/sync() with one un-encodable cached value, '
                             'archived key %r holds %s' % (k, _s(real[k])))
                    return
            if raised is None:
                # a dump()/sync() that *returned* has copied the cache to the archive: nothing it was asked to write
                # may be silently missing
                self.note('c08_unencodable_dumps_that_returned')
                for k, v in M.items():
                    if k not in real or not same_value(real[k], v):
                        self.bad('dump-returned-without-writing', 'dump()/sync() with one un-encodable cached value (%s) '
                                 'returned normally, but cached key %r %s' % (kind, k, 'is not in the archive'
                                 if k not in real else 'is archived as %s' % _s(real[k])))
                        return
            else:
                self.note('c08_unencodable_dumps_that_raised')
            cur.clear(); cur.update(real)       # (a directory archive may have taken some of the keys before failing)
            if op[1] and raised is None:
                M.update(cur)
            elif op[1]:
                M.clear(); M.update(dict(c))
        elif o == 'dump':
            c.dump()
            if cur is not None:
                cur.update(M)
        elif o == 'dumpk':
            ks = [dec(k) for k in op[1]]
            c.dump(*ks)
            if cur is not None:
                for k in ks:
                    if k in M:
                        cur[k] = M[k]
        elif o == 'load':
            c.load()
            if cur is not None:
                M.update(cur)
        elif o == 'loadk':
            ks = [dec(k) for k in op[1]]
            c.load(*ks)
            if cur is not None:
                for k in ks:
                    if k in cur:
                        M[k] = cur[k]
        elif o == 'sync':
            c.sync()
            if cur is not None:
                cur.update(M)
                M.update(cur)
        elif o == 'syncclear':
            c.sync(clear=True)
            if cur is not None:
                cur.clear(); cur.update(M)
        elif o == 'off':
            c.archived(False)
            if self.on and self.have and not self.parked:
                self.parked = True
            self.on = False
        elif o == 'on':
            try:
                c.archived(True)
                raised = False
            except ValueError:
                raised = True
            self.note('c08_toggle_on')
            if self.have and self.parked:
                if raised:
                    self.bad('toggle-on-raised', 'archived(True) raised although an archive was parked')
                self.parked = False
                self.on = True
            elif self.have and not self.parked:
                if raised:
                    self.bad('toggle-on-raised', 'archived(True) raised although an archive is attached')
                self.on = True
            else:
                if not raised and not c.archived():
                    pass
        elif o == 'open':
            # replace the current archive with a fresh in-memory one that becomes "our" archive
            new = _KA.dict_archive()
            c.open(new)
            self.arch, self.A = new, {}
            self.have, self.parked, self.on = True, False, True
            self.b_open = True
        elif o == 'assign':
            # cache.archive = X (what f.archive(X) does): X becomes the attached archive, archiving is on,
            # and whatever was parked by archived(False) is forgotten
            new = _KA.dict_archive()
            c.archive = new
            self.arch, self.A = new, {}
            self.have, self.parked, self.on = True, False, True
        elif o == 'drop':
            try:
                c.drop()
                raised = False
            except ValueError:
                raised = True
            if self.have:
                if raised:
                    self.bad('drop-raised', 'drop() raised although an archive was set')
                self.have, self.parked, self.on = False, False, False
            # dropping a never-archived cache raises ValueError by design

    def check(self, o):
        c = self.c
        self.note('c08_steps')
        mem = dict(c)
        if not same_dict(mem, self.M):
            self.bad('cache-differs', 'after %s: cache holds %s, algebra says %s'
                     % (o, sorted(map(repr, mem))[:6], sorted(map(repr, self.M))[:6]))
            return
        att = c.archived()
        want_att = bool(self.on and self.have and not self.parked)
        if bool(att) != want_att:
            self.bad('archived-flag-differs', 'after %s: archived() is %r, algebra says %r' % (o, att, want_att))
            return
        cur_real = dict(c.archive.items())
        if want_att:
            if not same_dict(cur_real, self.A):
                self.bad('archive-differs', 'after %s: attached archive holds %s, algebra says %s'
                         % (o, sorted(map(repr, cur_real))[:6], sorted(map(repr, self.A))[:6]))
                return
        elif cur_real:
            self.bad('null-archive-not-empty', 'after %s: detached cache\'s archive holds %r' % (o, list(cur_real)[:3]))
            return
        if self.arch is not None and self.arch is self.orig and gen.persistent(self.b) and self.step % 3 == 2:
            # what the algebra says about the archive is what the *store* holds, not just this handle's view
            self.note('c08_second_handle_checks')
            try:
                real = self.fresh_view()
            except Exception as e:
                real = {'<second handle failed>': '%s: %s' % (type(e).__name__, str(e)[:100])}
            if not same_dict(real, self.A):
                self.bad('stored-archive-differs', 'after %s: a second handle on the archive sees %s, algebra says %s'
                         % (o, sorted(map(repr, real))[:6], sorted(map(repr, self.A))[:6]))
                return
        if self.arch is not None and (self.parked or not self.have):
            # the parked / dropped archive object must be untouched
            real = dict(self.arch.items())
            self.note('c08_parked_checks')
            if not same_dict(real, self.A):
                self.bad('parked-archive-touched', 'after %s: the switched-off archive changed: %s vs %s'
                         % (o, sorted(map(repr, real))[:6], sorted(map(repr, self.A))[:6]))


def _raised_inside_klepto(e):
    import traceback
    fr = traceback.extract_tb(e.__traceback__)
    return bool(fr) and os.sep + 'klepto' + os.sep in fr[-1].filename


def run_case_c08(case):
    with Scratch('am8') as root:
        r = Run08(case, root).run()
        conn = getattr(r.arch, '_conn', None)
        if conn is not None:
            try:
                conn.close()
            except Exception:
                pass
        return r


RULES = {
    'C03': 'operation sequence on one archive configuration containing >=1 overwrite or delete of a present key and >=1 operation on a missing key',
    'C08': 'history with >=1 dump/load/sync executed while cache and archive held different values for a common key, or while archiving was switched off',
}


def gen_case(rng, prop):
    return gen_case_c03(rng) if prop == 'C03' else gen_case_c08(rng)


def run_case(case, prop):
    r = run_case_c03(case) if prop == 'C03' else run_case_c08(case)
    return r, r.viol


def nontrivial(case, r, prop):
    if prop == 'C03':
        return r.cnt.get('c03_overwrite_or_delete_of_present_key', 0) > 0 and r.cnt.get('c03_ops_on_missing_key', 0) > 0
    return (r.cnt.get('c08_sync_ops_while_off', 0) + r.cnt.get('c08_sync_ops_with_conflicting_values', 0)) > 0


def run_shard(prop, tier, seed, shard, nshards, opts):
    n_total = opts.get('cases', 1000)
    budget = opts.get('budget_s', 60)
    t0 = time.time()
    res = {'cases': 0, 'digests': [], 'counters': {}, 'samples': [], 'violations': [],
           'cells': {}, 'anchors': {}, 'notes': []}
    from kv import reach
    mon = reach.Reach(); mon.start()
    if shard == 0 and prop == 'C03':
        # directed witnesses of the recorded findings (same judge): they keep the KNOWN-FINDING lines on every
        # run and simply pass once a defect is repaired
        dirb = {'kind': 'dir', 'serialized': True, 'protocol': None}
        for ops in ([['set', 1, 'one'], ['contains', 1.0], ['set', 1.0, 'float'], ['len']],
                    [['set', 'data/x.csv', 1], ['get', 'data/x.csv'], ['keys', 'data/x.csv'], ['len']],
                    [['set', 'L' * 300, 1], ['get', 'L' * 300], ['set', 'short', 2], ['len']],
                    [['set', 'a-b', 1], ['set', 'a_b', 2], ['get', 'a-b'], ['len']]):
            case = {'backend': dirb, 'cached': False, 'ops': ops, 'seed': 1, 'directed': True}
            r, viol = run_case(case, prop)
            res['cases'] += 1
            res['counters']['directed_cases'] = res['counters'].get('directed_cases', 0) + 1
            res['violations'].extend(viol[:4])
    if prop == 'C03':
        # directed: values whose pickle is exactly one block (2**16, 2**20 bytes) long, one per shard and configuration
        sized = [b for b in CONFIGS if b['kind'] in ('file', 'dir') and not is_source(b) and not is_json(b)]
        for j, b in enumerate(sized):
            if j % nshards != shard:
                continue
            for T in (1 << 20, 1 << 16, 0):
                if T == 0 and not b.get('compression'):
                    continue
                pv = {'__padded__': [T, b.get('protocol')]} if T else {'__noisy__': 7}
                ops = [['set', 'small', 1], ['set', 'blk', pv], ['get', 'blk'], ['len'], ['keys', 'blk'], ['get', 'small'],
                       ['set', 'blk2', pv], ['pop', 'blk'], ['get', 'blk2'], ['len']]
                case = {'backend': b, 'cached': j % 2 == 1, 'ops': ops, 'seed': 1, 'directed': True}
                r, viol = run_case(case, prop)
                res['cases'] += 1
                res['counters']['c03_block_sized_value_cases'] = res['counters'].get('c03_block_sized_value_cases', 0) + 1
                res['violations'].extend(viol[:4])
    i = shard
    while i < n_total and time.time() - t0 < budget:
        rng = gen.make_rng('archmon', prop, seed, i)
        case = gen_case(rng, prop)
        r, viol = run_case(case, prop)
        res['cases'] += 1
        for k, v in r.cnt.items():
            res['counters'][k] = res['counters'].get(k, 0) + v
        cell = backend_name(case['backend']) + ('/cached' if case.get('cached') else '')
        res['cells'][cell] = res['cells'].get(cell, 0) + 1
        if nontrivial(case, r, prop):
            res['digests'].append(digest(case))
            if len(res['samples']) < 2:
                res['samples'].append({'backend': case['backend'], 'cached': case.get('cached'),
                                       'ops': [[o[0]] + [repr(x)[:40] for x in o[1:]] for o in case['ops'][:10]]})
        for v in viol:
            if len(res['violations']) < 300:
                res['violations'].append(v)
        i += nshards
    mon.stop()
    res['anchors'] = mon.anchors()
    return res


def replay(v, prop):
    r, viol = run_case(v['case'], prop)
    return viol
