"""concmon: concurrent processes on one archive (C14).

Two or three real processes operate on the same directory / file / sqlite archive. Every client
operation is recorded at the client boundary {proc, op, key, call time, return time, result or
exception} on the system-wide monotonic clock, values are unique per write, and the final
contents are read by a fresh handle. Schedules come from
  (1) a controller that serialises the processes at file-system-call granularity through the
      LD_PRELOAD shim's gate (seeded random walks and PCT-style priority schedules), and
  (2) free-running stress (real kernel scheduling on all cores).
"""
import json
import os
import random
import select
import subprocess
import sys
import time

from kv import gen
from kv.common import digest, import_klepto, Scratch, child_env, PY, VERIF
from kv.gen import enc, dec, backend_name
from kv.crashmon import SHIM, ensure_shim, arm

CONFIGS = [
    {'kind': 'dir', 'serialized': True, 'protocol': None},
    {'kind': 'dir', 'serialized': True, 'protocol': 'json'},
    {'kind': 'dir', 'serialized': True, 'protocol': None, 'compression': 3},
    {'kind': 'file', 'serialized': True, 'protocol': None},
    {'kind': 'file', 'serialized': True, 'protocol': 'json'},
    {'kind': 'sql', 'memory': False},
    {'kind': 'dir', 'serialized': True, 'protocol': None, 'permissions': 0o755},     # explicit permissions= option
    {'kind': 'file', 'serialized': False, 'protocol': None},     # source-text encodings (import-based readers)
    {'kind': 'dir', 'serialized': False, 'protocol': None},
]


# =========================================================================================
# child

def child_main(path):
    klepto = import_klepto()
    from kv import archmon
    with open(path) as f:
        job = json.load(f)
    b, root = job['backend'], job['root']
    if job['job'] == 'build':
        a = archmon.public_open(b, root, False)
        for rnd in range(int(job.get('history', 0)), -1, -1):
            for k, v in job['items']:
                a[dec(k)] = dec(v) if rnd == 0 else 'old%d' % rnd
        if job.get('cleared'):
            a['to-be-cleared'] = 0
            a.clear()              # the archive exists and is empty because it was cleared
        return
    if job['job'] == 'final':
        a = archmon.public_open(b, root, False) if b['kind'] != 'file' else \
            gen.build_archive(klepto, b, root, public=False)   # a plain read: the public opener rewrites
        try:
            rep = {'items': sorted([json.dumps(enc(k), sort_keys=True), enc(v)] for k, v in a.items())}
        except Exception as e:
            rep = {'error': '%s: %s' % (type(e).__name__, str(e)[:200])}
        with open(job['out'], 'w') as f:
            json.dump(rep, f)
        return
    # client
    a = None
    if job.get('preopen', True):
        a = gen.build_archive(klepto, b, root, public=False)
    if job.get('fork'):
        # the common multiprocessing pattern: the archive object is created once and inherited by
        # forked workers, which then use it concurrently
        rec0 = None
        if job.get('prestore'):
            # the parent has already written through the object the workers inherit
            rec0 = run_ops(klepto, archmon, a, b, root, [['set', 'parent-key', 'p-0']])
        pids = []
        for wi, wops in enumerate(job['fork']):
            pid = os.fork()
            if pid == 0:
                try:
                    rec = run_ops(klepto, archmon, a, b, root, wops)
                    with open(job['out'] + '.w%d' % wi, 'w') as f:
                        json.dump(rec, f)
                finally:
                    os._exit(0)
            pids.append(pid)
        for pid in pids:
            os.waitpid(pid, 0)
        allrec = [rec0] if rec0 is not None else []
        for wi in range(len(job['fork'])):
            try:
                with open(job['out'] + '.w%d' % wi) as f:
                    allrec.append(json.load(f))
            except Exception:
                allrec.append(None)
        with open(job['out'], 'w') as f:
            json.dump({'forked': allrec}, f)
        return
    rec = []
    if job.get('seed_rng') is not None:
        # every worker seeds the global random generator with the same value "for reproducibility"
        import random as _random
        _random.seed(job['seed_rng'])
    if job.get('gated'):
        arm('gate/on')
        try:
            os.stat(os.path.join(root, '.barrier'))     # first gated event = start barrier
        except OSError:
            pass
    rec = run_ops(klepto, archmon, a, b, root, job['ops'])
    if job.get('gated'):
        arm('gate/off')
    with open(job['out'], 'w') as f:
        json.dump(rec, f)


def run_ops(klepto, archmon, a, b, root, ops):
    rec = []
    mono = time.monotonic_ns
    if a is None and any(op[0] not in ('open', 'idle') for op in ops):
        a = gen.build_archive(klepto, b, root, public=False)     # (not pre-opened: the constructor is part of the race)
    for op in ops:
        o = op[0]
        r = {'op': o, 'key': op[1] if len(op) > 1 and o in ('set', 'set2', 'get', 'in') else None}
        if o in ('del', 'popd'):
            r['target'] = op[1]
        if o == 'set2':
            r['value'], r['key2'], r['value2'] = op[2], op[3], op[4]
        r['call'] = mono()
        try:
            if o == 'set':
                r['value'] = op[2]
                a[dec(op[1])] = dec(op[2])
                res = None
            elif o == 'set2':
                a.update({dec(op[1]): dec(op[2]), dec(op[3]): dec(op[4])})    # one operation, two keys
                res = None
            elif o == 'get':
                res = enc(a[dec(op[1])])
            elif o == 'in':
                res = dec(op[1]) in a
            elif o == 'del':
                del a[dec(op[1])]
                res = None
            elif o == 'popd':
                res = enc(a.pop(dec(op[1]), None))
            elif o == 'len':
                res = len(a)
            elif o == 'keys':
                res = sorted(json.dumps(enc(k), sort_keys=True) for k in a.keys())
            elif o == 'items':
                res = sorted([json.dumps(enc(k), sort_keys=True), enc(v)] for k, v in a.items())
            elif o == 'load':
                c = klepto.archives.cache(archive=a)
                c.load()
                res = sorted([json.dumps(enc(k), sort_keys=True), enc(v)] for k, v in dict(c).items())
            elif o == 'idle':
                time.sleep(op[1] / 1000.0)
                res = None
            elif o == 'open':
                h = archmon.public_open(b, root, bool(op[1]))
                h2 = h.archive if bool(op[1]) else h
                res = sorted([json.dumps(enc(k), sort_keys=True), enc(v)] for k, v in h2.items())
                conn = getattr(h2, '_conn', None)
                if conn is not None:
                    conn.close()
            else:
                raise ValueError(o)
            r['res'] = res
        except KeyError:
            r['exc'] = 'KeyError'
        except Exception as e:
            r['exc'] = '%s: %s' % (type(e).__name__, str(e)[:120])
        r['ret'] = mono()
        rec.append(r)
    return rec


# =========================================================================================
# controller

class Proc(object):
    pass


def spawn_client(job, sc, name, gated, gate_level=2):
    jp = os.path.join(sc, name + '.job.json')
    job = dict(job)
    job['out'] = os.path.join(sc, name + '.out.json')
    job['gated'] = gated
    with open(jp, 'w') as f:
        json.dump(job, f)
    env = child_env()
    pr = Proc()
    pr.name, pr.out = name, job['out']
    if gated:
        r_req, w_req = os.pipe()
        r_ack, w_ack = os.pipe()
        env.update({'LD_PRELOAD': SHIM, 'FSSHIM_ROOT': job['root'], 'FSSHIM_GATE': '%d,%d' % (w_req, r_ack),
                    'FSSHIM_GATE_LEVEL': str(gate_level)})
        pr.p = subprocess.Popen([PY, '-m', 'kv.concmon', jp], env=env, cwd=sc, pass_fds=(w_req, r_ack),
                                stdout=subprocess.PIPE, stderr=subprocess.STDOUT)
        os.close(w_req); os.close(r_ack)
        pr.r_req, pr.w_ack = r_req, w_ack
        pr.buf, pr.blocked, pr.alive = b'', None, True
    else:
        pr.p = subprocess.Popen([PY, '-m', 'kv.concmon', jp], env=env, cwd=sc,
                                stdout=subprocess.PIPE, stderr=subprocess.STDOUT)
    return pr


def pump(procs, timeout):
    """read pending gate requests; returns when every live process is blocked or the timeout passed"""
    end = time.time() + timeout
    while True:
        waiting = [p for p in procs if p.alive and p.blocked is None]
        if not waiting:
            return
        left = end - time.time()
        if left <= 0:
            return
        rl, _, _ = select.select([p.r_req for p in waiting], [], [], left)
        for p in waiting:
            if p.r_req in rl:
                data = os.read(p.r_req, 65536)
                if not data:
                    p.alive = False
                    continue
                p.buf += data
                if b'\n' in p.buf:
                    line, p.buf = p.buf.split(b'\n', 1)
                    parts = line.decode('utf-8', 'replace').split(' ', 2)
                    p.blocked = (parts[1] if len(parts) > 1 else '?', parts[2] if len(parts) > 2 else '')


def run_gated(jobs, sc, rng, policy='random', watchdog=40):
    procs = [spawn_client(j, sc, 'c%d' % i, True) for i, j in enumerate(jobs)]
    t0 = time.time()
    # start barrier: everyone has reached its first gated event
    pump(procs, 20)
    trace = []
    prio = list(range(len(procs)))
    rng.shuffle(prio)
    change = set(rng.sample(range(1, 60), 2)) if policy == 'pct' else set()
    step = 0
    last = None
    ok = True
    while any(p.alive for p in procs):
        if time.time() - t0 > watchdog:
            ok = False
            break
        pump(procs, 0.03)
        blocked = [i for i, p in enumerate(procs) if p.alive and p.blocked is not None]
        if not blocked:
            if not any(p.alive for p in procs):
                break
            continue
        if policy == 'pct':
            if step in change and last is not None:
                prio.remove(last); prio.append(last)     # demote the running one
            i = min(blocked, key=lambda x: prio.index(x))
        elif policy == 'sticky':
            i = last if (last in blocked and rng.random() < 0.8) else rng.choice(blocked)
        else:
            i = rng.choice(blocked)
        p = procs[i]
        trace.append('%d:%s' % (i, p.blocked[0]))
        p.blocked = None
        try:
            os.write(p.w_ack, b'x')
        except OSError:
            p.alive = False
        last = i
        step += 1
    outs = []
    for p in procs:
        try:
            p.p.wait(timeout=10 if ok else 1)
        except subprocess.TimeoutExpired:
            p.p.kill()
            ok = False
        os.close(p.r_req); os.close(p.w_ack)
        if os.path.exists(p.out):
            with open(p.out) as f:
                outs.append(json.load(f))
        else:
            outs.append(None)
    return outs, trace, ok


def run_dfs_once(jobs, sc, forced, watchdog=60, gate_level=1):
    """one gated run under a *deterministic* policy: follow `forced` (list of process indices), then
    keep running the same process while it is enabled, else the lowest-numbered enabled one.
    The controller decides only when every live process is blocked at the gate (or a 2 s fallback
    fired, reported as timing-dependent). -> (outs, steps[(enabled, chosen)], ok, timing_dependent)"""
    procs = [spawn_client(j, sc, 'd%d' % i, True, gate_level=gate_level) for i, j in enumerate(jobs)]
    t0 = time.time()
    pump(procs, 20)
    steps = []
    last = None
    ok, timing = True, False
    while any(p.alive for p in procs):
        if time.time() - t0 > watchdog:
            ok = False
            break
        pump(procs, 0.25)
        if any(p.alive and p.blocked is None for p in procs):
            timing = True      # somebody is running without reaching the gate (e.g. sqlite busy wait)
        enabled = [i for i, p in enumerate(procs) if p.alive and p.blocked is not None]
        if not enabled:
            continue
        n = len(steps)
        if n < len(forced) and forced[n] in enabled:
            i = forced[n]
        elif last in enabled:
            i = last
        else:
            i = enabled[0]
        steps.append((enabled, i, procs[i].blocked[0]))
        p = procs[i]
        p.blocked = None
        try:
            os.write(p.w_ack, b'x')
        except OSError:
            p.alive = False
        last = i
    outs = []
    for p in procs:
        try:
            p.p.wait(timeout=10 if ok else 1)
        except subprocess.TimeoutExpired:
            p.p.kill(); ok = False
        os.close(p.r_req); os.close(p.w_ack)
        if os.path.exists(p.out):
            with open(p.out) as f:
                outs.append(json.load(f))
            os.remove(p.out)
        else:
            outs.append(None)
    return outs, steps, ok, timing


def preemptions(steps_prefix):
    n = 0
    for j in range(1, len(steps_prefix)):
        en, ch, _ = steps_prefix[j]
        prev = steps_prefix[j - 1][1]
        if ch != prev and prev in en:
            n += 1
    return n


def explore_bounded(case, bound=2, max_runs=400, budget_s=600):
    """stateless DFS over the gate-level schedules of one short operation pair with at most `bound`
    preemptions. -> (violations, counters, exhausted)"""
    viol, cnt = [], {'c14_dfs_pairs': 1}
    t0 = time.time()
    b = case['backend']
    stack = [[]]
    seen = set()
    exhausted = True
    with Scratch('dfs') as sc:
        root0 = os.path.join(sc, 'root0')
        os.makedirs(root0)
        jp = os.path.join(sc, 'build.json')
        with open(jp, 'w') as f:
            json.dump({'job': 'build', 'backend': b, 'root': root0, 'items': case['s0'],
                       'cleared': bool(case.get('cleared'))}, f)
        subprocess.run([PY, '-m', 'kv.concmon', jp], env=child_env(), cwd=sc, timeout=60,
                       stdout=subprocess.PIPE, stderr=subprocess.STDOUT)
        import shutil
        runs = 0
        while stack:
            if runs >= max_runs or time.time() - t0 > budget_s:
                exhausted = False
                break
            forced = stack.pop()
            root = os.path.join(sc, 'root')
            if os.path.exists(root):
                shutil.rmtree(root)
            shutil.copytree(root0, root, symlinks=True)
            jobs = [dict(j, job='client', backend=b, root=root) for j in case['jobs']]
            outs, steps, ok, timing = run_dfs_once(jobs, sc, forced, gate_level=(2 if b['kind'] == 'sql' else 1))
            runs += 1
            cnt['c14_dfs_schedules'] = cnt.get('c14_dfs_schedules', 0) + 1
            if timing:
                cnt['c14_dfs_timing_dependent_runs'] = cnt.get('c14_dfs_timing_dependent_runs', 0) + 1
            if not ok:
                cnt['c14_watchdog_expired'] = cnt.get('c14_watchdog_expired', 0) + 1
                exhausted = False
                continue
            sig = tuple(s[1] for s in steps)
            if sig in seen:
                continue
            seen.add(sig)
            fp = os.path.join(sc, 'final.json')
            with open(fp, 'w') as f:
                json.dump({'job': 'final', 'backend': b, 'root': root, 'out': os.path.join(sc, 'final.out.json')}, f)
            subprocess.run([PY, '-m', 'kv.concmon', fp], env=child_env(), cwd=sc, timeout=60,
                           stdout=subprocess.PIPE, stderr=subprocess.STDOUT)
            try:
                with open(os.path.join(sc, 'final.out.json')) as f:
                    final = json.load(f)
            except Exception:
                final = {'error': 'final reader produced nothing'}
            JUDGE_NOTES.clear()
            vs = judge(case, outs, final)
            for k, n in JUDGE_NOTES.items():
                cnt[k] = cnt.get(k, 0) + n
            for v in vs:
                v['schedule'] = list(sig)
            viol.extend(vs)
            # children: switch to another enabled process at any step not fixed by the prefix
            for i in range(len(forced), len(steps)):
                en, ch, _ = steps[i]
                for alt in en:
                    if alt == ch:
                        continue
                    pre = steps[:i] + [(en, alt, '?')]
                    if preemptions(pre) <= bound:
                        stack.append([s[1] for s in steps[:i]] + [alt])
    cnt['c14_dfs_distinct_schedules'] = len(seen)
    if exhausted:
        cnt['c14_dfs_pairs_exhausted'] = 1
    return viol, cnt, exhausted


DFS_PAIRS = [
    ('overwrite-vs-get', [[['set', 'k', 'k-1']], [['get', 'k']]]),
    ('overwrite-vs-items', [[['set', 'k', 'k-1']], [['items']]]),
    ('new-vs-keys', [[['set', 'n1', 'n-1']], [['keys']]]),
    ('new-vs-load', [[['set', 'n1', 'n-1']], [['load']]]),
    ('writer-vs-writer', [[['set', 'w0', 'a-1']], [['set', 'w1', 'b-1']]]),
    ('overwrite-vs-in', [[['set', 'k', 'k-1']], [['in', 'k']]]),
    ('writer-vs-opener', [[['set', 'n1', 'n-1']], [['open', 0]]]),
    ('writer-vs-cached-opener', [[['set', 'n1', 'n-1']], [['open', 1]]]),
]


def dfs_cases():
    out = []
    for b in CONFIGS:
        for name, jobs in DFS_PAIRS:
            if name == 'writer-vs-writer' and b['kind'] == 'file':
                continue
            wl = {'overwrite-vs-get': 'overwrite-reader', 'overwrite-vs-items': 'overwrite-reader',
                  'overwrite-vs-in': 'overwrite-reader', 'new-vs-keys': 'writer-reader', 'new-vs-load': 'writer-reader',
                  'writer-vs-writer': 'writer-writer', 'writer-vs-opener': 'writer-opener',
                  'writer-vs-cached-opener': 'writer-opener'}[name]
            out.append({'backend': dict(b), 'workload': wl, 'pair': name, 's0': [['base', 'b0'], ['k', 'k0']],
                        'jobs': [{'ops': j} for j in jobs], 'policy': 'dfs', 'free': False, 'seed': 0})
    return out


def run_free(jobs, sc, timeout=120):
    procs = [spawn_client(j, sc, 'c%d' % i, False) for i, j in enumerate(jobs)]
    outs, ok = [], True
    for p in procs:
        try:
            p.p.wait(timeout=timeout)
        except subprocess.TimeoutExpired:
            p.p.kill(); ok = False
        if os.path.exists(p.out):
            with open(p.out) as f:
                outs.append(json.load(f))
        else:
            outs.append(None)
    return outs, [], ok


# =========================================================================================
# workloads

def gen_case(rng, prop='C14', free=False):
    b = dict(rng.choice(CONFIGS))
    kind = b['kind']
    wl = rng.choice(['writer-writer', 'writer-reader', 'overwrite-reader', 'writer-opener'] if kind != 'file'
                    else ['writer-reader', 'overwrite-reader', 'writer-opener', 'writer-opener'])
    n = rng.choice([20, 40, 80]) if free else rng.choice([2, 3, 4])
    s0 = [['base', 'b0'], ['k', 'k0']]
    uid = [0]

    def val(tag):
        uid[0] += 1
        return '%s-%d' % (tag, uid[0])
    jobs = []
    if wl == 'writer-writer':
        nw = rng.choice([2, 2, 3]) if not free else rng.choice([2, 4, 6])
        for w in range(nw):
            ops = []
            for j in range(n):
                key = 'w%d_%d' % (w, j % max(1, n // 2))
                ops.append(['set', key, val('w%d' % w)])
            jobs.append({'ops': ops})
    else:
        wops = []
        for j in range(n):
            if kind == 'file' and rng.random() < 0.4:
                # two keys in one update(): a reader must see both old or both new
                wops.append(['set2', 'k', val('k'), 'base', val('b')])
            elif wl == 'overwrite-reader' or rng.random() < 0.5:
                wops.append(['set', 'k', val('k')])
            else:
                wops.append(['set', 'new%d' % j, val('n')])
        jobs.append({'ops': wops})
        rops = []
        m = n * 2 if not free else n
        opener_cached = int(rng.random() < 0.4)     # all openers of one case use the same flavour
        for j in range(m):
            if wl == 'writer-opener':
                rops.append(['open', opener_cached])
            else:
                rops.append(rng.choice([['get', 'k'], ['in', 'k'], ['len'], ['keys'], ['items'], ['load'], ['get', 'base']]
                                       + ([['load'], ['items'], ['load']] if kind == 'file' else [])))
        jobs.append({'ops': rops})
        if rng.random() < 0.3:
            jobs.append({'ops': [rng.choice([['get', 'k'], ['items'], ['in', 'base']]) for _ in range(m)]})
    if free and kind in ('dir',) and rng.random() < 0.35:
        wl = 'forked-writers'
        nw = rng.choice([2, 3, 4])
        jobs = [{'ops': [], 'fork': [[['set', 'f%d_%d' % (w, j), val('f%d' % w)] for j in range(n)] for w in range(nw)],
                 'prestore': rng.random() < 0.5}]
    policy = rng.choice(['random', 'random', 'sticky', 'pct'])
    history = rng.choice([0, 0, 1, 2])
    if wl == 'writer-opener' and kind == 'file' and rng.random() < 0.5:
        s0 = []          # an existing but still empty archive
        cleared = rng.random() < 0.6
        if cleared:
            for j in jobs:
                j['preopen'] = False      # every process opens the (emptied) archive inside the schedule
        for j in jobs[:1]:
            j['ops'] = [op if op[1] != 'k' else ['set', 'k', op[2]] for op in j['ops']]
    if free and kind == 'sql' and rng.random() < 0.12:
        # a reader that looks a key up and then sits idle with its handle open must not block a writer
        wl = 'idle-reader'
        history = 2
        jobs = [{'ops': [['idle', 400], ['set', 'other', val('o')], ['set', 'other2', val('o')]]},
                {'ops': [['in', 'k'], ['idle', 6500]]}]
    if wl == 'writer-writer' and rng.random() < 0.5:
        for j in jobs:
            j['seed_rng'] = 12345
    return {'backend': b, 'workload': wl, 's0': s0, 'jobs': jobs, 'policy': policy, 'free': free,
            'history': history, 'seed': rng.randrange(1 << 30), 'cleared': bool(locals().get('cleared'))}


# =========================================================================================
# oracle

JUDGE_NOTES = {}


def judge(case, outs, final):
    viol = []
    b = case['backend']
    wl = case['workload']

    def bad(kind, msg, mech=()):
        viol.append({'property': 'C14', 'kind': kind, 'mech': list(mech), 'case': case,
                     'msg': ('%s %s: ' % (backend_name(b), wl) + msg)[:700]})
    S0 = dict((json.dumps(k), v) for k, v in case['s0'])
    # the recorded opener finding is the cached=False constructor (it rewrites the file); a case whose
    # openers all use cached=True must hold
    opener_flavours = set(op[1] for j in case['jobs'] for op in j['ops'] if op[0] == 'open')
    rewriting_opener = (b['kind'] == 'file' and wl == 'writer-opener' and opener_flavours == set([0]))
    writes = {}          # key -> list of (call, ret, value, proc)
    for pi, rec in enumerate(outs):
        for r in rec or []:
            if r['op'] in ('set', 'set2'):
                writes.setdefault(json.dumps(r['key']), []).append((r['call'], r['ret'], r['value'], pi, 'exc' in r))
            if r['op'] == 'set2':
                writes.setdefault(json.dumps(r['key2']), []).append((r['call'], r['ret'], r['value2'], pi, 'exc' in r))
    allowed_vals = dict((k, set([json.dumps(v)])) for k, v in S0.items())
    for k, ws in writes.items():
        for w in ws:
            allowed_vals.setdefault(k, set()).add(json.dumps(w[2]))
    ever_keys = set(allowed_vals)

    def overwrite_only_mech(k, call, ret):
        """dir backend and the key is merely being overwritten by a concurrent writer during the
        reader's operation: the recorded overwrite window of dir_archive"""
        if b['kind'] != 'dir' or k not in S0 and not any(w[1] < call for w in writes.get(k, [])):
            return []
        if any(w[0] < ret and w[1] > call for w in writes.get(k, [])):
            return ['dir-overwrite-not-atomic']
        return []

    def always_present(k, call, ret):
        """was k stored before the op began (in S0 or by a write completed before the call)?
        writers never delete, so it then exists in every state during the op"""
        return k in S0 or any(w[1] < call and not w[4] for w in writes.get(k, []))

    def opener_mech(call, ret):
        return []
    # completed-state sequence of the single writer, for the whole-dictionary (file) clause
    file_states = None
    if b['kind'] == 'file':
        wrec = outs[0] or []
        cur = dict(S0)
        file_states = [(0, 0, dict(cur))]
        for r in wrec:
            if r['op'] in ('set', 'set2') and 'exc' not in r:
                cur = dict(cur); cur[json.dumps(r['key'])] = r['value']
                if r['op'] == 'set2':
                    cur[json.dumps(r['key2'])] = r['value2']      # both keys change in one step of the writer
                file_states.append((r['call'], r['ret'], cur))
    for pi, rec in enumerate(outs):
        if rec is None:
            bad('client-process-died', 'client %d produced no record' % pi)
            continue
        for r in rec:
            o = r['op']
            if 'exc' in r and 'database is locked' in r['exc'] and wl == 'idle-reader':
                bad('writer-blocked-by-idle-reader', 'client %d %s raised %s while the only other process had finished its '
                    'lookup and was idle' % (pi, o, r['exc']))
                continue
            if 'exc' in r and 'database is locked' in r['exc']:
                # sqlite's busy timeout is wall-clock (5 s): under a controller that withholds the lock
                # holder, or on a loaded machine, this is inconclusive - never a verdict
                JUDGE_NOTES['c14_sqlite_busy_timeouts'] = JUDGE_NOTES.get('c14_sqlite_busy_timeouts', 0) + 1
                continue
            if o == 'del' and r.get('exc') == 'KeyError' and r.get('key') is None:
                continue      # (removing a key that was never stored: KeyError is the right answer)
            if 'exc' in r and not (r['exc'] == 'KeyError' and o == 'get'):
                mech = []
                if o not in ('set', 'set2') and rewriting_opener and r['exc'] == 'KeyError':
                    # items()/load() list the keys and then look each one up in a second read of the file; a
                    # key can only vanish in between because an opener's rewrite restored an older dictionary
                    mech = ['file-open-rewrites-archive']
                if o not in ('set', 'set2') and b['kind'] == 'dir' and 'KeyError' in r['exc']:
                    # iteration lists the entry, then its lookup falls into the overwrite window
                    for kk in writes:
                        mech = overwrite_only_mech(kk, r['call'], r['ret'])
                        if mech:
                            break
                bad('operation-raised', 'client %d %s raised %s' % (pi, o, r['exc']), mech)
                continue
            if o in ('set', 'set2'):
                continue
            if o == 'get':
                k = json.dumps(r['key'])
                if r.get('exc') == 'KeyError':
                    if always_present(k, r['call'], r['ret']):
                        # (single file + only rewriting openers: the key can only be gone because an opener's
                        # read-modify-write put an older dictionary back - the recorded lost-write finding)
                        bad('present-key-reported-absent', 'lookup of %s raised KeyError although it was stored before the '
                            'lookup began and is never deleted' % k,
                            overwrite_only_mech(k, r['call'], r['ret']) + (['file-open-rewrites-archive'] if rewriting_opener else []))
                elif json.dumps(r['res']) not in allowed_vals.get(k, set()):
                    bad('value-never-stored', 'lookup of %s returned %s, never stored for that key' % (k, json.dumps(r['res'])[:80]))
            elif o == 'in':
                k = json.dumps(r['key'])
                if r['res'] is False and always_present(k, r['call'], r['ret']):
                    bad('present-key-reported-absent', '%s in archive was False although it was stored before and is never deleted' % k,
                        overwrite_only_mech(k, r['call'], r['ret']) + (['file-open-rewrites-archive'] if rewriting_opener else []))
            elif o in ('keys',):
                for k in r['res']:
                    if k not in ever_keys:
                        bad('phantom-key', 'keys() returned %s, never stored' % k)
                for k in S0:
                    if k not in r['res']:
                        bad('present-key-reported-absent', 'keys() misses %s' % k, overwrite_only_mech(k, r['call'], r['ret']))
            elif o in ('items', 'load', 'open'):
                got = dict((k, v) for k, v in r['res'])
                for k, v in got.items():
                    if k not in ever_keys:
                        bad('phantom-key', '%s returned key %s, never stored' % (o, k))
                    elif json.dumps(v) not in allowed_vals[k]:
                        bad('value-never-stored', '%s returned %s for %s, never stored for that key' % (o, json.dumps(v)[:60], k))
                for k in S0:
                    if k not in got and b['kind'] != 'file':
                        bad('present-key-reported-absent', '%s misses %s' % (o, k), overwrite_only_mech(k, r['call'], r['ret']))
                if file_states is not None and pi != 0:
                    # a complete earlier-or-later dictionary of the writer
                    lo = max([i for i, st in enumerate(file_states) if st[1] <= r['call']] or [0])
                    hi = max([i for i, st in enumerate(file_states) if st[0] <= r['ret']] or [0])
                    if not any(got == file_states[i][2] for i in range(lo, hi + 1)):
                        mech = []
                        if rewriting_opener and all(k0 in got for k0 in S0) and \
                                all(k1 in allowed_vals and json.dumps(v1) in allowed_vals[k1] for k1, v1 in got.items()):
                            # complete entries only, every initial key there, but older than admissible: an
                            # opener's read-modify-write put an older dictionary back (later writes went on top)
                            mech = ['file-open-rewrites-archive']
                        bad('torn-or-stale-dictionary', '%s by client %d saw %s which is none of the writer\'s states %d..%d'
                            % (o, pi, sorted(got.items())[:4], lo, hi), mech)
            elif o == 'len':
                if isinstance(r['res'], int) and r['res'] > len(ever_keys):
                    bad('phantom-key', 'len() = %d > %d keys ever stored' % (r['res'], len(ever_keys)))
    # final contents
    if 'error' in final:
        bad('final-read-raised', final['error'])
        return viol
    fin = dict((k, v) for k, v in final['items'])
    for k, v in fin.items():
        if k not in ever_keys:
            bad('phantom-key', 'final contents hold %s, never stored' % k)
        elif json.dumps(v) not in allowed_vals[k]:
            bad('value-never-stored', 'final contents hold %s for %s' % (json.dumps(v)[:60], k))
    for k, ws in writes.items():
        done = [w for w in ws if not w[4]]
        if not done:
            continue
        if k not in fin:
            mech = []
            if rewriting_opener:
                mech = ['file-open-rewrites-archive']
            bad('completed-write-lost', 'key %s written by a completed operation is missing at the end' % k, mech)
            continue
        writers = set(w[3] for w in done)
        if len(writers) == 1:
            lastv = max(done, key=lambda w: w[1])[2]
            if fin[k] != lastv:
                mech = []
                if rewriting_opener:
                    mech = ['file-open-rewrites-archive']
                bad('completed-write-lost', 'key %s ends as %s, the last completed write stored %s'
                    % (k, json.dumps(fin[k])[:40], json.dumps(lastv)[:40]), mech)
    for k in S0:
        if k not in fin:
            bad('completed-write-lost', 'initial key %s is missing at the end' % k,
                ['file-open-rewrites-archive'] if rewriting_opener else [])
    return viol


def run_case(case, prop='C14'):
    cnt = {}
    rng = random.Random(case['seed'])
    with Scratch('cc') as sc:
        root = os.path.join(sc, 'root')
        os.makedirs(root)
        b = case['backend']
        jp = os.path.join(sc, 'build.json')
        with open(jp, 'w') as f:
            json.dump({'job': 'build', 'backend': b, 'root': root, 'items': case['s0'],
                       'history': case.get('history', 0), 'cleared': bool(case.get('cleared'))}, f)
        subprocess.run([PY, '-m', 'kv.concmon', jp], env=child_env(), cwd=sc, timeout=60,
                       stdout=subprocess.PIPE, stderr=subprocess.STDOUT)
        jobs = [dict(j, job='client', backend=b, root=root) for j in case['jobs']]
        if case.get('free'):
            outs, trace, ok = run_free(jobs, sc)
        else:
            outs, trace, ok = run_gated(jobs, sc, rng, case.get('policy', 'random'))
        flat = []
        for o in outs:
            if isinstance(o, dict) and 'forked' in o:
                flat.extend(o['forked'])
                cnt['c14_forked_handle_runs'] = 1
            else:
                flat.append(o)
        outs = flat
        if not ok:
            cnt['c14_watchdog_expired'] = 1
            return [], cnt, None
        fp = os.path.join(sc, 'final.json')
        with open(fp, 'w') as f:
            json.dump({'job': 'final', 'backend': b, 'root': root, 'out': os.path.join(sc, 'final.out.json')}, f)
        subprocess.run([PY, '-m', 'kv.concmon', fp], env=child_env(), cwd=sc, timeout=60,
                       stdout=subprocess.PIPE, stderr=subprocess.STDOUT)
        try:
            with open(os.path.join(sc, 'final.out.json')) as f:
                final = json.load(f)
        except Exception:
            final = {'error': 'final reader produced nothing'}
        JUDGE_NOTES.clear()
        viol = judge(case, outs, final)
        cnt.update(JUDGE_NOTES)
        nops = sum(len(o or []) for o in outs)
        cnt['c14_client_ops'] = nops
        cnt['c14_schedules_free' if case.get('free') else 'c14_schedules_gated'] = 1
        if any(j.get('seed_rng') is not None for j in case['jobs']):
            cnt['c14_runs_with_identically_seeded_writers'] = 1
        cnt['c14_gate_grants'] = len(trace)
        # real overlap: operations of different processes whose [call, ret] intervals intersect
        iv = [(r['call'], r['ret'], pi) for pi, o in enumerate(outs) for r in (o or [])]
        iv.sort()
        ov = 0
        for x in range(len(iv) - 1):
            if iv[x + 1][0] < iv[x][1] and iv[x + 1][2] != iv[x][2]:
                ov += 1
        cnt['c14_overlapping_op_pairs'] = ov
        return viol, cnt, digest(trace) if trace else digest([r['call'] for o in outs for r in (o or [])][:50])


RULE = ('schedule (distinct digest of the granted owner/event sequence for gated runs; distinct timing for free runs) '
        'in which operations of different processes overlapped')


def run_shard(prop, tier, seed, shard, nshards, opts):
    t0 = time.time()
    budget = opts.get('budget_s', 60)
    res = {'cases': 0, 'digests': [], 'counters': {}, 'samples': [], 'violations': [],
           'cells': {}, 'anchors': {}, 'notes': []}
    if not ensure_shim():
        res['notes'].append('shim could not be built')
        return res
    dfs = dfs_cases() if opts.get('dfs_bound') is not None else []
    for di in range(shard, len(dfs), nshards):
        if time.time() - t0 > budget:
            break
        case = dfs[di]
        viol, cnt, exhausted = explore_bounded(case, bound=opts['dfs_bound'], max_runs=opts.get('dfs_max_runs', 300),
                                               budget_s=opts.get('dfs_budget_s', 300))
        res['cases'] += cnt.get('c14_dfs_schedules', 0)
        for k, v in cnt.items():
            res['counters'][k] = res['counters'].get(k, 0) + v
        cell = 'dfs/%s/%s' % (backend_name(case['backend']), case['pair'])
        res['cells'][cell] = cnt.get('c14_dfs_distinct_schedules', 0)
        res['notes'].append('%s: %d distinct schedules with <=%d preemptions, %s' % (
            cell, cnt.get('c14_dfs_distinct_schedules', 0), opts['dfs_bound'], 'exhausted' if exhausted else 'NOT exhausted'))
        for v in viol:
            if len(res['violations']) < 200:
                res['violations'].append(v)
    FILE_CFGS = [c for c in CONFIGS if c['kind'] == 'file']
    if dfs == [] and 8 <= shard < 8 + 2 * len(FILE_CFGS):
        # quick tier too: every schedule with <=2 preemptions of "one write vs. one process merely opening the archive
        # (cached=True, so it must not write)" on each single-file configuration - once on an archive that holds
        # entries, once on one that exists but was emptied by clear()
        j = shard - 8
        b = dict(FILE_CFGS[j // 2])
        cleared = bool(j % 2)
        case = {'backend': b, 'workload': 'writer-opener', 'pair': 'writer-vs-cached-opener',
                's0': [] if cleared else [['base', 'b0'], ['k', 'k0']], 'cleared': cleared,
                'jobs': [{'ops': [['set', 'n1', 'n-1']], 'preopen': False}, {'ops': [['open', 1]], 'preopen': False}],
                'policy': 'dfs', 'free': False, 'seed': 0}
        viol, cnt, exhausted = explore_bounded(case, bound=2, max_runs=120, budget_s=40)
        res['cases'] += cnt.get('c14_dfs_schedules', 0)
        for k, v in cnt.items():
            res['counters'][k] = res['counters'].get(k, 0) + v
        res['notes'].append('dfs/%s/writer-vs-cached-opener%s: %d distinct schedules with <=2 preemptions, %s' % (
            backend_name(b), '/cleared' if cleared else '', cnt.get('c14_dfs_distinct_schedules', 0),
            'exhausted' if exhausted else 'NOT exhausted'))
        res['violations'].extend(viol[:10])
    IDLE_OPS = [['in', 'k'], ['get', 'k'], ['len'], ['keys'], ['items'], ['load'], ['in', 'absent'], ['get', 'base'],
                ['del', 'never-stored'], ['popd', 'never-stored'], ['get', 'never-stored']]
    if shard < len(IDLE_OPS):
        # directed: a reader that performed one read - or one failing removal - on an sqlite table archive (each path in turn, on a key
        # with several history rows) and then sits idle with its handle open must not block a writer
        case = {'backend': {'kind': 'sql', 'memory': False}, 'workload': 'idle-reader', 's0': [['base', 'b0'], ['k', 'k0']],
                'jobs': [{'ops': [['idle', 400], ['set', 'other', 'o-1'], ['set', 'other2', 'o-2']]},
                         {'ops': [IDLE_OPS[shard], ['idle', 6500]]}],
                'policy': 'random', 'free': True, 'history': 2, 'seed': shard, 'directed': True}
        viol, cnt, dg = run_case(case)
        res['cases'] += 1
        res['counters']['c14_idle_reader_runs'] = res['counters'].get('c14_idle_reader_runs', 0) + 1
        for k, v in cnt.items():
            res['counters'][k] = res['counters'].get(k, 0) + v
        res['violations'].extend(viol[:10])
    i = shard
    n_total = opts.get('cases', 400)
    free_every = opts.get('free_every', 5)
    while i < n_total and time.time() - t0 < budget:
        rng = gen.make_rng('concmon', seed, i)
        case = gen_case(rng, free=(i % free_every == free_every - 1))
        viol, cnt, dg = run_case(case)
        res['cases'] += 1
        for k, v in cnt.items():
            res['counters'][k] = res['counters'].get(k, 0) + v
        cell = '%s/%s/%s' % (backend_name(case['backend']), case['workload'], 'free' if case['free'] else case['policy'])
        res['cells'][cell] = res['cells'].get(cell, 0) + 1
        if dg is not None and cnt.get('c14_overlapping_op_pairs', 0) > 0:
            res['digests'].append(dg)
            if len(res['samples']) < 2:
                res['samples'].append({'backend': case['backend'], 'workload': case['workload'], 'policy': case['policy'],
                                       'free': case['free'], 'jobs': [j['ops'][:5] for j in case['jobs']]})
        for v in viol:
            if len(res['violations']) < 200:
                res['violations'].append(v)
        i += nshards
    return res


def replay(v, prop):
    ensure_shim()
    return run_case(v['case'])[0]


if __name__ == '__main__':
    child_main(sys.argv[1])
