"""crashmon: crash atomicity of archive writes (C13) by exhaustive kill-point enumeration.

For a (configuration, prior state S0, operation) triple: a dry run under the LD_PRELOAD shim lists
the file-system events of the operation; then, for *every* mutating event i (and for the
half-written variant of every write), S0 is restored, the operation is re-run with the shim armed
to SIGKILL the process just before event i, and a *new process* opens the archive through the
public constructor and reports what it reads. Each report must be error-free, show every key
touched by the operation with its S0 or its completed value (or absence), every other key
unchanged, and no key that was never stored.
"""
import json
import random
import os
import shutil
import signal
import subprocess
import sys
import time

from kv import gen
from kv.common import digest, import_klepto, Scratch, child_env, PY, VERIF
from kv.gen import enc, dec, backend_name

SHIM = os.path.join(VERIF, 'build', 'fsshim.so')

CONFIGS = [
    {'kind': 'file', 'serialized': True, 'protocol': None},
    {'kind': 'file', 'serialized': True, 'protocol': 'json'},
    {'kind': 'file', 'serialized': False, 'protocol': None},
    {'kind': 'dir', 'serialized': True, 'protocol': None},
    {'kind': 'dir', 'serialized': True, 'protocol': 'json'},
    {'kind': 'dir', 'serialized': False, 'protocol': None},
    {'kind': 'dir', 'serialized': True, 'protocol': None, 'compression': 3},
    {'kind': 'sql', 'memory': False},
    {'kind': 'dir', 'serialized': True, 'protocol': None, 'permissions': 0o755},     # explicit permissions= option
    {'kind': 'dir', 'serialized': True, 'protocol': None, 'memmode': 'r+'},
    {'kind': 'dir', 'serialized': True, 'protocol': None, 'fast': True},
    {'kind': 'file', 'serialized': True, 'protocol': 0},
    # the archive is addressed through a symbolic link (a data directory that lives on another volume)
    {'kind': 'file', 'serialized': True, 'protocol': None, 'symlink': True},
    {'kind': 'dir', 'serialized': True, 'protocol': None, 'symlink': True},
]


def make_symlink(b, root):
    """before the archive is first opened: its name is a (relative, so every copy of the tree keeps its own) symbolic
    link to a place under root/real"""
    name = 'arch.pkl' if b['kind'] == 'file' else 'archdir'
    real = os.path.join(root, 'real')
    os.makedirs(real, exist_ok=True)
    if b['kind'] == 'dir':
        os.makedirs(os.path.join(real, name), exist_ok=True)
    link = os.path.join(root, name)
    if not os.path.lexists(link):
        os.symlink(os.path.join('real', name), link)


def ensure_shim():
    subprocess.run(['sh', os.path.join(VERIF, 'shim', 'build.sh')], check=False)
    return os.path.exists(SHIM)


# =========================================================================================
# child side (python -m kv.crashmon <job.json>)

def arm(what):
    try:
        os.close(os.open('/__fsshim__/' + what, os.O_RDONLY))
    except OSError:
        pass


def _audit_mark(what):
    """a system call the shim lets through untouched and strace can see: brackets the operation for the
    shim-completeness audit (the shim's own arm/disarm never reach the kernel)"""
    try:
        os.stat('/__kvaudit__/' + what)
    except OSError:
        pass


def child_main(path):
    klepto = import_klepto()
    from kv import archmon
    with open(path) as f:
        job = json.load(f)
    b, root = job['backend'], job.get('root')
    kind = job['job']
    if kind == 'build':
        if b.get('symlink'):
            make_symlink(b, root)
        a = archmon.public_open(b, root, False)
        for rnd in range(int(job.get('history', 0)), -1, -1):
            for k, v in job['items']:
                # earlier rounds store older values first: the final state is `items`, but each key
                # has been overwritten `history` times (the sqlite table keeps those rows)
                a[dec(k)] = dec(v) if rnd == 0 else 'old%d-%s' % (rnd, json.dumps(k))
        return
    if kind == 'read':
        out = {}
        for name, r in job['roots']:
            out[name] = read_report(archmon, b, r)
        with open(job['out'], 'w') as f:
            json.dump(out, f)
        return
    if kind == 'op':
        op = job['op']
        o = op[0]
        a = None
        if o == 'dump':
            a = archmon.public_open(b, root, True)
            a.update(dict((dec(k), dec(v)) for k, v in op[1]))
        elif o != 'open':
            a = archmon.public_open(b, root, False)
        if o == 'updatearch':
            # the source of the update is itself an archive of the same kind, stored next to this one
            src = archmon.public_open(b, root, False, suffix='B')
            src.update(dict((dec(k), dec(v)) for k, v in op[1]))
        _audit_mark('begin')
        arm(job['arm'])
        if o == 'set':
            a[dec(op[1])] = dec(op[2])
        elif o == 'setdefault':
            a.setdefault(dec(op[1]), dec(op[2]))
        elif o == 'update':
            a.update(dict((dec(k), dec(v)) for k, v in op[1]))
        elif o == 'updatearch':
            a.update(src)
        elif o == 'del':
            del a[dec(op[1])]
        elif o == 'pop':
            a.pop(dec(op[1]))
        elif o == 'popitem':
            a.popitem()
        elif o == 'popkeys':
            a.popkeys([dec(k) for k in op[1]])
        elif o == 'clear':
            a.clear()
        elif o == 'dump':
            a.dump()
        elif o == 'open':
            a = archmon.public_open(b, root, bool(op[1]))
        arm('disarm')
        _audit_mark('end')
        with open(job['done'], 'w') as f:
            f.write('done')
        return


def read_report(archmon, b, root):
    """what a new process sees: through len / keys / __asdict__ and through cache.load()"""
    rep = {}
    try:
        a = archmon.public_open(b, root, False)
    except Exception as e:
        return {'open_error': '%s: %s' % (type(e).__name__, str(e)[:200])}
    for name, fn in (('len', lambda: len(a)), ('keys', lambda: sorted(json.dumps(enc(k), sort_keys=True) for k in a.keys())),
                     ('asdict', lambda: sorted([json.dumps(enc(k), sort_keys=True), enc(v)] for k, v in a.__asdict__().items()))):
        try:
            rep[name] = fn()
        except Exception as e:
            rep[name + '_error'] = '%s: %s' % (type(e).__name__, str(e)[:200])
    try:
        c = archmon.public_open(b, root, True)
        c.load()
        rep['load'] = sorted([json.dumps(enc(k), sort_keys=True), enc(v)] for k, v in dict(c).items())
    except Exception as e:
        rep['load_error'] = '%s: %s' % (type(e).__name__, str(e)[:200])
    for x in (a, getattr(locals().get('c'), 'archive', None)):
        conn = getattr(x, '_conn', None)
        if conn is not None:
            try:
                conn.close()
            except Exception:
                pass
    return rep


# =========================================================================================
# parent side

def run_child(job, scratch, name, shim_env=None, timeout=90):
    jp = os.path.join(scratch, name + '.job.json')
    with open(jp, 'w') as f:
        json.dump(job, f)
    env = child_env()
    if shim_env:
        env.update(shim_env)
    p = subprocess.run([PY, '-m', 'kv.crashmon', jp], env=env, cwd=scratch, timeout=timeout,
                       stdout=subprocess.PIPE, stderr=subprocess.STDOUT)
    return p.returncode, p.stdout.decode('utf-8', 'replace')[-600:]


# ---- shim completeness audit: the same run seen by strace ------------------------------------------------

STRACE_SET = ('open,openat,openat2,creat,write,pwrite64,pwritev,pwritev2,writev,close,rename,renameat,renameat2,'
              'unlink,unlinkat,rmdir,mkdir,mkdirat,ftruncate,truncate,fsync,fdatasync,sync_file_range,chmod,fchmod,fchmodat,'
              'link,linkat,symlink,symlinkat,fallocate,copy_file_range,sendfile,mknod,mknodat,newfstatat,stat,statx,'
              'setxattr,fsetxattr,utimensat')
_INTERPOSED = {'rename': 'rename', 'renameat': 'rename', 'renameat2': 'rename', 'rmdir': 'rmdir', 'mkdir': 'mkdir',
               'mkdirat': 'mkdir', 'unlink': 'unlink', 'chmod': 'chmod', 'fchmodat': 'chmod', 'link': 'link',
               'symlink': 'symlink'}
_FD_INTERPOSED = {'write': 'write', 'pwrite64': 'pwrite', 'writev': 'writev', 'ftruncate': 'ftruncate',
                  'fsync': 'fsync', 'fdatasync': 'fdatasync', 'sendfile': 'sendfile', 'copy_file_range': 'copy_file_range'}
_UNINTERPOSED = ('openat2', 'pwritev', 'pwritev2', 'truncate', 'sync_file_range', 'fchmod', 'linkat', 'symlinkat',
                 'fallocate', 'mknod', 'mknodat', 'setxattr', 'fsetxattr')


def strace_mutations(path, root):
    """kinds of the mutating system calls that touch `root`, between the audit marks, in the shim's vocabulary;
    a call the shim has no entry point for is reported as 'UNINTERPOSED:<syscall>'"""
    import re
    out, on, written = [], False, set()
    pat = re.compile(r'^(?:\[pid\s+\d+\]\s+|\d+\s+)?(\w+)\((.*)$')
    with open(path, errors='replace') as f:
        for line in f:
            m = pat.match(line)
            if not m:
                continue
            name, rest = m.group(1), m.group(2)
            if '/__kvaudit__/begin' in rest:
                on = True
                continue
            if '/__kvaudit__/end' in rest:
                on = False
                continue
            if not on or root not in rest:
                continue
            args = rest.rsplit(') = ', 1)[0]
            first = args.split(',', 1)[0]
            if name in ('open', 'openat', 'creat'):
                parg = args if name != 'openat' else args.split(',', 1)[1]
                if ('"' + root) not in parg.split(',')[0]:
                    continue
                w = name == 'creat' or any(fl in args for fl in ('O_WRONLY', 'O_RDWR', 'O_CREAT', 'O_TRUNC'))
                if w:
                    out.append('open-w')
            elif name in _FD_INTERPOSED:
                target = first if name != 'copy_file_range' else (args.split(',') + ['', '', ''])[2]
                if ('<' + root) in target:
                    out.append(_FD_INTERPOSED[name])
                    if name in ('write', 'pwrite64', 'writev', 'sendfile', 'copy_file_range'):
                        written.add(target.split('<', 1)[0].strip())
            elif name == 'close':
                fd = first.split('<', 1)[0].strip()
                if ('<' + root) in first and fd in written:
                    out.append('close-w')
                written.discard(fd)
            elif name == 'unlinkat':
                out.append('rmdir' if 'AT_REMOVEDIR' in args else 'unlink')
            elif name in _INTERPOSED:
                out.append(_INTERPOSED[name])
            elif name in _UNINTERPOSED:
                out.append('UNINTERPOSED:' + name)
    return out


def shim_audit(case, sc, s0):
    """run the operation once under strace *and* the shim; -> (ok, detail). ok is None when strace is unusable"""
    b = case['backend']
    aud = os.path.join(sc, 'audroot')
    shutil.copytree(s0, aud, symlinks=True)
    slog, alog = os.path.join(sc, 'xa.strace'), os.path.join(sc, 'xa.log')
    jp = os.path.join(sc, 'xa.job.json')
    with open(jp, 'w') as f:
        json.dump({'job': 'op', 'backend': b, 'root': aud, 'op': case['op'], 'arm': 'arm/0',
                   'done': os.path.join(sc, 'xa.done')}, f)
    env = child_env()
    env.update({'LD_PRELOAD': SHIM, 'FSSHIM_ROOT': aud, 'FSSHIM_LOG': alog})
    try:
        p = subprocess.run(['strace', '-y', '-qq', '-s', '8', '-o', slog, '-e', 'trace=' + STRACE_SET,
                            PY, '-m', 'kv.crashmon', jp], env=env, cwd=sc, timeout=120,
                           stdout=subprocess.PIPE, stderr=subprocess.STDOUT)
    except (OSError, subprocess.TimeoutExpired) as e:
        return None, 'strace could not be run: %r' % (e,)
    if p.returncode != 0 or not os.path.exists(os.path.join(sc, 'xa.done')) or not os.path.exists(slog):
        return None, 'strace run failed: %s' % p.stdout.decode('utf-8', 'replace')[-200:]
    seen_by_strace = strace_mutations(slog, aud)
    seen_by_shim = [e['op'] for e in parse_log(alog) if e['mut']]
    if seen_by_strace == seen_by_shim:
        return True, len(seen_by_shim)
    return False, 'strace saw %r, the shim saw %r' % (seen_by_strace[:40], seen_by_shim[:40])


def parse_log(path):
    ev = []
    if os.path.exists(path):
        with open(path) as f:
            for line in f:
                parts = line.rstrip('\n').split(' ', 4)
                if len(parts) >= 5:
                    ev.append({'seq': int(parts[0]), 'mut': parts[2] == 'M', 'op': parts[3], 'detail': parts[4]})
    return ev


def touched_keys(op):
    o = op[0]
    if o in ('set', 'setdefault', 'del', 'pop'):
        return [json.dumps(op[1], sort_keys=True)]
    if o in ('update', 'dump', 'updatearch'):
        return [json.dumps(k, sort_keys=True) for k, _ in op[1]]
    if o == 'popkeys':
        return [json.dumps(k, sort_keys=True) for k in op[1]]
    return None   # clear / popitem / open: every key may be touched (clear, popitem) or none (open)


def gen_case(rng, prop='C13'):
    b = dict(rng.choice(CONFIGS))
    n0 = rng.choice([0, 1, 3])
    big = 'B' * 9000
    keyspace = ['k0', 'k1', 'k2', 'k3', 'k4']
    if b['kind'] == 'dir' and b.get('serialized', True) and rng.random() < 0.6:
        # keys that need a stored input file (non-string keys; strings the directory name cannot spell), in any position
        keyspace = ['k0', 'k-1', 'k4', 'k-3', 'k2'] if b.get('protocol') == 'json' else \
            ['k0', 'k-1', {'__t__': [1, 'x']}, 7, 'k4']
        rng.shuffle(keyspace)
    s0 = []
    for i in range(n0):
        s0.append([keyspace[i], rng.choice([100 + i, 'v%d' % i, big + str(i)])])
    newv = lambda: rng.choice([rng.randrange(1000, 2000), 'new%d' % rng.randrange(100), big + 'N'])
    present = [k for k, _ in s0]
    absent = [k for k in keyspace if k not in present]
    kinds = ['set-new', 'set-over', 'update', 'del', 'pop', 'clear', 'dump', 'open', 'open-cached', 'setdefault',
             'popitem', 'popkeys']
    if b['kind'] == 'dir':
        kinds += ['set-over', 'update', 'dump', 'del']       # the multi-step protocols: replace / remove an entry
    special = [k for k in present if not isinstance(k, str) or '-' in k]     # entries with a stored input file
    pick = lambda: (rng.choice(special) if special and rng.random() < 0.6 else rng.choice(present))
    while True:
        kd = rng.choice(kinds)
        if kd == 'set-new' and absent:
            op = ['set', absent[0], newv()]
        elif kd == 'set-over' and present:
            op = ['set', pick(), newv()]
        elif kd == 'update' and (present or absent):
            ks = ([pick()] + absent[:2]) if (present and rng.random() < 0.7) else absent[:2]
            op = ['update', [[k, newv()] for k in ks]]
            if b['kind'] in ('dir', 'file') and not b.get('symlink') and rng.random() < 0.3:
                op[0] = 'updatearch'      # update() given another archive object instead of a dict
        elif kd == 'del' and present:
            op = ['del', rng.choice(present)]
        elif kd == 'pop' and present:
            op = ['pop', rng.choice(present)]
        elif kd == 'clear' and present:
            op = ['clear']
        elif kd == 'dump':
            ks = ([pick()] + absent[:1]) if present else absent[:2]
            op = ['dump', [[k, newv()] for k in ks]]
        elif kd == 'open':
            op = ['open', 0]
        elif kd == 'open-cached':
            op = ['open', 1]
        elif kd == 'setdefault' and absent:
            op = ['setdefault', absent[0], newv()]
        elif kd == 'popitem' and present:
            op = ['popitem']
        elif kd == 'popkeys' and len(present) >= 2:
            op = ['popkeys', rng.sample(present, 2)]
        else:
            continue
        break
    case = {'backend': b, 's0': s0, 'op': op, 'history': rng.choice([0, 0, 1, 2]), 'seed': rng.randrange(1 << 30)}
    # crash - restart - crash histories: a quarter of the triples continue from two of their crash states
    if op[0] != 'open' and rng.random() < 0.25:
        case['second'] = 3
    return case


def as_map(report_items):
    return dict((k, v) for k, v in report_items)


def entry_moved_away(log):
    """witness-derived classifier of the recorded overwrite window of dir_archive: in the killed run
    the old entry directory K_* had been renamed out of the entry namespace, and the kill came
    before the (already fully staged) new entry was renamed in - i.e. after the rename-away the
    run did nothing but remove the moved-away directory. Staging work (mkdir/open/write/close)
    *after* the old entry was moved away is NOT this window."""
    idx = None
    for n, (op, detail) in enumerate(log):
        if op == 'rename' and '->' in detail:
            d = detail.rsplit(' ', 1)[0] if detail.rsplit(' ', 1)[-1].lstrip('-').isdigit() else detail
            src, dst = d.split('->', 1)
            if os.path.basename(src).startswith('K_') and os.path.basename(dst).startswith('.I_'):
                idx = n
            elif idx is not None and os.path.basename(dst).startswith('K_'):
                idx = None        # something was renamed in again
    if idx is None:
        return False
    tail = log[idx + 1:]
    for op, detail in tail:
        if op.startswith('KILL-BEFORE-'):
            what = op[len('KILL-BEFORE-'):]
            if what in ('unlink', 'rmdir'):
                if '/.I_' not in detail:
                    return False
            elif what != 'rename':
                return False
        elif op in ('unlink', 'rmdir'):
            if '/.I_' not in detail:
                return False
        else:
            return False
    return True


def judge(case, s0_rep, s1_rep, rep, where, killed_event, log=()):
    """violations of one crash state"""
    out = []
    b = case['backend']
    tk = touched_keys(case['op'])

    def bad(kind, msg, mech=()):
        out.append({'property': 'C13', 'kind': kind, 'msg': ('%s %s; killed before %s: ' % (
            backend_name(b), json.dumps(case['op'])[:80], killed_event) + msg)[:700], 'mech': list(mech), 'case': case,
            'crash_point': where})
    if 'open_error' in rep:
        bad('fresh-process-cannot-open', rep['open_error'])
        return out
    for name in ('len', 'keys', 'asdict', 'load'):
        if name + '_error' in rep:
            bad('fresh-process-read-raised', '%s raised %s' % (name, rep[name + '_error']))
    S0, S1 = as_map(s0_rep.get('asdict', [])), as_map(s1_rep.get('asdict', []))
    for view in ('asdict', 'load'):
        if view not in rep:
            continue
        got = as_map(rep[view])
        for k, v in got.items():
            if k not in S0 and k not in S1:
                bad('phantom-key', '%s view shows key %s that was never stored' % (view, k))
        for k in set(S0) | set(S1):
            touched = (tk is None and case['op'][0] in ('clear', 'popitem')) or (tk is not None and k in tk)
            allowed = []
            if k in S0:
                allowed.append(('present', S0[k]))
            else:
                allowed.append(('absent', None))
            if touched:
                if k in S1:
                    allowed.append(('present', S1[k]))
                else:
                    allowed.append(('absent', None))
                if case['op'][0] == 'popitem':
                    allowed.append(('absent', None))     # which item is popped may differ from the dry run's choice
            state = ('present', got[k]) if k in got else ('absent', None)
            if state not in allowed:
                mech = []
                if b['kind'] == 'dir' and touched and state[0] == 'absent' and k in S0 and k in S1 \
                        and entry_moved_away(log):
                    mech = ['dir-overwrite-not-atomic']
                bad('key-in-neither-old-nor-new-state' if touched else 'untouched-key-changed',
                    '%s view: key %s is %s, allowed %s' % (view, k, _short(state), [_short(a) for a in allowed]), mech)
    if case['op'][0] == 'popitem' and 'asdict' in rep:
        gone = [k for k in S0 if k not in as_map(rep['asdict'])]
        if len(gone) > 1:
            bad('popitem-removed-several', 'popitem: keys %s are gone' % gone[:4])
    if 'keys' in rep and 'asdict' in rep and sorted(rep['keys']) != sorted(k for k, _ in rep['asdict']):
        bad('keys-and-contents-disagree', 'keys() %s vs contents %s' % (rep['keys'][:5], [k for k, _ in rep['asdict']][:5]))
    if 'len' in rep and 'asdict' in rep and rep['len'] != len(rep['asdict']):
        bad('len-and-contents-disagree', 'len()=%r vs %d entries' % (rep['len'], len(rep['asdict'])))
    return out


def _short(st):
    r = json.dumps(st)
    return r if len(r) < 60 else r[:57] + '...'


def run_case(case, prop='C13'):
    """sweep every crash point of one triple; -> (violations, counters, info)"""
    viol, cnt = [], {}

    def note(c, n=1):
        cnt[c] = cnt.get(c, [] if isinstance(n, list) else 0) + n
    b = case['backend']
    info = {}
    with Scratch('cr') as sc:
        s0 = os.path.join(sc, 's0')
        os.makedirs(s0)
        rc, out = run_child({'job': 'build', 'backend': b, 'root': s0, 'items': case['s0'],
                             'history': case.get('history', 0)}, sc, 'build')
        if rc != 0:
            return [{'property': 'C13', 'kind': 'harness-build-failed', 'msg': out, 'mech': [], 'case': case}], cnt, {}
        v, info, states = sweep(case, s0, sc, '', note)
        viol.extend(v)
        if case.get('second') and states:
            second_crash(case, states, sc, note, viol)
    return viol, cnt, info


def second_op(rng, visible, first):
    """the operation a restarted program might do next, preferring the keys the interrupted one was working on"""
    # (keys travel as the JSON text of their encoded form, as in the reports)
    tk = touched_keys(first) or []
    vis = list(visible)
    hot = [json.loads(k) for k in ([k for k in tk if k in vis] or vis)]
    cold = [json.loads(k) for k in ([k for k in tk if k not in vis] or ['"k9"'])]
    vis = [json.loads(k) for k in vis]
    newv = lambda: rng.choice([rng.randrange(3000, 4000), 'again%d' % rng.randrange(100), 'B' * 9000 + 'M'])
    while True:
        kd = rng.choice(['set-over', 'set-over', 'set-new', 'del', 'pop', 'clear', 'update', 'dump', 'popkeys', 'redo'])
        if kd == 'redo' and first[0] in ('set', 'update', 'dump', 'clear', 'setdefault'):
            return json.loads(json.dumps(first))        # simply do the interrupted thing again
        if kd == 'set-over' and hot:
            return ['set', rng.choice(hot), newv()]
        if kd == 'set-new':
            return ['set', rng.choice(cold), newv()]
        if kd == 'del' and hot:
            return ['del', rng.choice(hot)]
        if kd == 'pop' and hot:
            return ['pop', rng.choice(hot)]
        if kd == 'clear' and vis:
            return ['clear']
        if kd == 'update':
            return ['update', [[k, newv()] for k in (hot[:1] + cold[:1])]]
        if kd == 'dump':
            return ['dump', [[k, newv()] for k in (hot[:1] + cold[:1])]]
        if kd == 'popkeys' and len(vis) >= 2:
            return ['popkeys', (hot[:1] + [k for k in vis if k not in hot[:1]])[:2]]


def second_crash(case, states, sc, note, viol):
    """crash - restart - crash: a program that was killed is restarted, works on the same archive, and is killed
    again.  Each chosen crash state of the first operation (already judged readable) becomes the prior state of a
    second operation whose every kill point is swept and judged against what the restarted program could see."""
    rng = random.Random(case['seed'])
    good = [(name, pdir, rep) for name, pdir, rep in states
            if not any(k.endswith('_error') for k in rep) and 'open_error' not in rep and 'asdict' in rep]
    rng.shuffle(good)
    for n, (name, pdir, rep) in enumerate(good[:int(case['second'])]):
        mid = None
        if rng.random() < 0.6:
            # the restarted program first completes one operation (typically putting back what the killed one was
            # removing or replacing), then is killed in the next
            tk = touched_keys(case['op']) or []
            seen = [k for k, _ in rep['asdict']]
            gone = [k for k in tk if k not in seen]
            if gone and rng.random() < 0.7:
                mid = ['set', json.loads(rng.choice(gone)), 'back%d' % rng.randrange(100)]
            else:
                mid = second_op(rng, seen, case['op'])
            mdir = os.path.join(sc, 'm%d' % n)
            shutil.copytree(pdir, mdir, symlinks=True)
            rc, out = run_child({'job': 'op', 'backend': case['backend'], 'root': mdir, 'op': mid, 'arm': 'arm/0',
                                 'done': mdir + '.done'}, sc, 'm%d' % n)
            outp = mdir + '.read.json'
            rc2, out2 = run_child({'job': 'read', 'backend': case['backend'], 'roots': [['m', mdir]], 'out': outp}, sc, 'mr%d' % n)
            if rc != 0 or not os.path.exists(mdir + '.done') or rc2 != 0 or not os.path.exists(outp):
                viol.append({'property': 'C13', 'kind': 'operation-failed-after-restart', 'mech': [], 'case': case,
                             'msg': 'after a kill (%s, at %s) a restarted process could not complete %s: %s'
                                    % (json.dumps(case['op'])[:80], name, json.dumps(mid)[:80], (out + out2)[-300:])})
                continue
            with open(outp) as f:
                rep = json.load(f)['m']
            if any(k.endswith('_error') for k in rep) or 'open_error' in rep or 'asdict' not in rep:
                viol.append({'property': 'C13', 'kind': 'unreadable-after-restart', 'mech': [], 'case': case,
                             'msg': 'after a kill (%s, at %s) and a completed %s the archive reads: %r'
                                    % (json.dumps(case['op'])[:80], name, json.dumps(mid)[:80], rep)})
                continue
            note('c13_second_histories_with_completed_operation_between')
            pdir = mdir
        op2 = second_op(rng, [k for k, _ in rep['asdict']], case['op'])
        case2 = dict(case, op=op2, second_after={'first_op': case['op'], 'killed_at': name, 'then_completed': mid})
        note('c13_second_crash_sweeps')
        v, info, st2 = sweep(case2, pdir, sc, 'x%d_' % n, note, second=True)
        for x in v:
            x['case'] = case          # (replay re-derives the second operations from the seed)
            x['msg'] = ('after an earlier kill (%s, at %s)%s and a restart: ' % (json.dumps(case['op'])[:60], name, ', a completed %s' % json.dumps(mid)[:50] if mid else '') + x['msg'])[:800]
        viol.extend(v)
        if info.get('exhaustive_for_this_triple'):
            note('c13_second_crash_sweeps_complete')


def sweep(case, s0, sc, tag, note, second=False):
    """every crash point of case['op'] applied to the archive state in directory s0
    -> (violations, info, [(arm name, crash-state directory, fresh-process report)])"""
    viol = []
    b = case['backend']
    src = not b.get('serialized', True)
    pre = 'c13_second_' if second else 'c13_'
    if True:
        # dry run: event list and completed state
        dry = os.path.join(sc, tag + 'dry')
        shutil.copytree(s0, dry, symlinks=True)
        log = os.path.join(sc, tag + 'dry.log')
        env = {'LD_PRELOAD': SHIM, 'FSSHIM_ROOT': dry, 'FSSHIM_LOG': log}
        rc, out = run_child({'job': 'op', 'backend': b, 'root': dry, 'op': case['op'], 'arm': 'arm/0',
                             'done': os.path.join(sc, tag + 'dry.done')}, sc, tag + 'dry', env)
        if rc != 0 or not os.path.exists(os.path.join(sc, tag + 'dry.done')):
            return [{'property': 'C13', 'kind': 'operation-failed-without-fault', 'msg': out, 'mech': [], 'case': case}], {}, []
        events = [e for e in parse_log(log) if e['mut']]
        kinds = [e['op'] for e in events]
        if case.get('audit') and not second:
            ok, detail = shim_audit(case, sc, s0)
            if ok is None:
                note('c13_audit_unavailable')
            elif ok:
                note('c13_audit_runs_agreeing')
                note('c13_audit_events_compared', detail)
            else:
                note('c13_audit_mismatch')
                note('_audit_notes', ['%s %s: %s' % (backend_name(b), case['op'][0], detail)])
        note(pre + 'triples')
        note(pre + 'events_in_dry_runs', len(events))
        points = []
        for i, e in enumerate(events, 1):
            points.append(('arm/%d' % i, i, e['op']))
            if e['op'] in ('write', 'pwrite'):
                points.append(('armhalf/%d' % i, i, e['op'] + '-half'))
        roots = [['s0', os.path.join(sc, tag + 's0copy')], ['s1', dry]]
        shutil.copytree(s0, roots[0][1], symlinks=True)
        fired = {}
        logs = {}
        for armname, i, what in points:
            pdir = os.path.join(sc, tag + 'p_' + armname.replace('/', '_'))
            shutil.copytree(s0, pdir, symlinks=True)
            plog = pdir + '.log'
            env = {'LD_PRELOAD': SHIM, 'FSSHIM_ROOT': pdir, 'FSSHIM_LOG': plog}
            done = pdir + '.done'
            rc, out = run_child({'job': 'op', 'backend': b, 'root': pdir, 'op': case['op'], 'arm': armname,
                                 'done': done}, sc, tag + 'p_' + armname.replace('/', '_'), env)
            note(pre + 'crash_points')
            ev = parse_log(plog)
            last = ev[-1] if ev else {'op': '?', 'detail': ''}
            if rc != -signal.SIGKILL:
                note(pre + 'kill_did_not_fire')
                fired[armname] = None
                continue
            # the killed run must have followed the dry run's event kinds up to the kill point
            pk = [e['op'] for e in ev if e['mut']][: i - 1]
            if pk != kinds[: i - 1]:
                note(pre + 'event_prefix_mismatch')
            fired[armname] = last['op'] + ' ' + last['detail'].replace(pdir, '<root>')[:120]
            logs[armname] = [(e['op'], e['detail']) for e in ev if e['mut']]
            roots.append([armname, pdir])
        # fresh process(es) read every crash state
        reports = {}
        batches = [[r] for r in roots] if src else [roots]
        for bi, batch in enumerate(batches):
            outp = os.path.join(sc, tag + 'read%d.out.json' % bi)
            rc, out = run_child({'job': 'read', 'backend': b, 'roots': batch, 'out': outp}, sc, tag + 'read%d' % bi, timeout=180)
            if rc != 0 or not os.path.exists(outp):
                for name, _ in batch:
                    reports[name] = {'open_error': 'reader process failed: ' + out[-200:]}
            else:
                with open(outp) as f:
                    reports.update(json.load(f))
            note('c13_reader_processes')
        s0_rep, s1_rep = reports['s0'], reports['s1']
        for name in ('s0', 's1'):
            if any(k.endswith('_error') for k in reports[name]):
                viol.append({'property': 'C13', 'kind': 'no-fault-state-unreadable', 'mech': [], 'case': case,
                             'msg': '%s: %r' % (name, reports[name])})
                return viol, {}, []
        for armname, i, what in points:
            if fired.get(armname) is None:
                continue
            note(pre + 'crash_states_judged')
            note(pre + 'kill_before_' + what.split('-')[0])
            viol.extend(judge(case, s0_rep, s1_rep, reports[armname], armname, fired[armname], logs.get(armname, ())))
        info = {'events': kinds, 'points': len(points), 'exhaustive_for_this_triple': all(v is not None for v in fired.values())}
        if info['exhaustive_for_this_triple']:
            note(pre + 'triples_fully_swept')
        states = [(name, path, reports[name]) for name, path in roots[2:] if name in reports]
    return viol, info, states


RULE = ('(configuration, prior state, operation) triple whose every mutating file-system event (and every '
        'half-written write) was used as a kill point and read back by a new process')


def run_shard(prop, tier, seed, shard, nshards, opts):
    t0 = time.time()
    budget = opts.get('budget_s', 60)
    n_total = opts.get('cases', 64)
    res = {'cases': 0, 'digests': [], 'counters': {}, 'samples': [], 'violations': [],
           'cells': {}, 'anchors': {}, 'notes': []}
    if not ensure_shim():
        res['notes'].append('shim could not be built')
        return res
    i = shard
    while i < n_total and time.time() - t0 < budget:
        rng = gen.make_rng('crashmon', seed, i)
        case = gen_case(rng)
        cell = '%s/%s' % (backend_name(case['backend']), case['op'][0] + ('-cached' if case['op'][0] == 'open' and case['op'][1] else ''))
        # shim-completeness audit: the first triple of every (configuration, operation) cell in this worker is also
        # run under strace, and both observers must report the same sequence of mutating calls
        case['audit'] = cell not in res['cells']
        viol, cnt, info = run_case(case)
        for n in cnt.pop('_audit_notes', []):
            res['notes'].append('shim audit mismatch: ' + n)
        res['cases'] += cnt.get('c13_crash_points', 0)
        for k, v in cnt.items():
            res['counters'][k] = res['counters'].get(k, 0) + v
        res['cells'][cell] = res['cells'].get(cell, 0) + 1
        if info.get('exhaustive_for_this_triple') and info.get('points', 0) > 0:
            res['digests'].append(digest(case))
            if len(res['samples']) < 2:
                res['samples'].append({'backend': case['backend'], 's0': [[k, str(v)[:20]] for k, v in case['s0']],
                                       'op': json.loads(json.dumps(case['op'])[:200]) if len(json.dumps(case['op'])) < 200 else case['op'][0],
                                       'mutating_events': info['events'], 'crash_points': info['points']})
        for v in viol:
            if len(res['violations']) < 200:
                res['violations'].append(v)
        i += nshards
    return res


def replay(v, prop):
    ensure_shim()
    return run_case(v['case'])[0]


if __name__ == '__main__':
    child_main(sys.argv[1])
