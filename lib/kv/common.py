"""Shared plumbing for the klepto runtime-monitoring checks.

Everything here is harness-side: locating and importing the *real* klepto from the
working tree, scratch directories, the sharded subprocess runner, evidence writing,
known-finding classification and the three-valued verdict.
"""
import hashlib
import json
import os
import shutil
import subprocess
import sys
import tempfile
import time

VERIF = os.path.dirname(os.path.dirname(os.path.dirname(os.path.abspath(__file__))))
LIB = os.path.join(VERIF, 'lib')
PY = os.environ.get('KV_PYTHON', '/venv/bin/python')
NCPU = max(2, min(16, os.cpu_count() or 4))


def repo_root():
    return os.path.abspath(os.environ.get('KV_REPO', '/repo'))


def import_klepto():
    """Import klepto from the working tree under test and assert that is what we got."""
    root = repo_root()
    if sys.path[0] != root:
        sys.path.insert(0, root)
    import klepto
    got = os.path.dirname(os.path.dirname(os.path.abspath(klepto.__file__)))
    if got != root:
        raise RuntimeError('klepto imported from %s, expected %s' % (got, root))
    return klepto


def seed():
    try:
        return int(os.environ.get('VERIF_SEED', '0'))
    except ValueError:
        return 0


def tier(argv_tier=None):
    t = argv_tier or os.environ.get('VERIF_TIER') or 'quick'
    return 'thorough' if t.startswith('t') else 'quick'


def digest(obj):
    return hashlib.sha1(json.dumps(obj, sort_keys=True, default=repr).encode()).hexdigest()[:16]


class Scratch(object):
    """A scratch directory outside /repo and /verif, removed on exit."""
    def __init__(self, tag='kv'):
        self.tag = tag
        self.path = None

    def __enter__(self):
        base = os.environ.get('KV_TMP') or tempfile.gettempdir()
        self.path = tempfile.mkdtemp(prefix='kv_%s_' % self.tag, dir=base)
        return self.path

    def __exit__(self, *exc):
        shutil.rmtree(self.path, ignore_errors=True)
        return False


def cwd_or_gone():
    """os.getcwd(), or a marker when the process sits in a directory that no longer exists"""
    try:
        return os.getcwd()
    except OSError:
        return '<a directory that has been removed>'


def child_env(**extra):
    env = dict(os.environ)
    env['PYTHONPATH'] = LIB + os.pathsep + repo_root()
    env.setdefault('PYTHONHASHSEED', '0')
    env['PYTHONDONTWRITEBYTECODE'] = '1'
    env.pop('PYTHONSTARTUP', None)
    for k, v in extra.items():
        if v is None:
            env.pop(k, None)
        else:
            env[k] = str(v)
    return env


def run_shards(module, prop, tier_, nshards, opts=None, timeout=900, env_extra=None):
    """Run `module.run_shard` in `nshards` worker processes; merge their JSON results.

    Returns (merged, problems) where problems is a list of strings describing workers
    that died, timed out or produced no result (=> inconclusive, never 'held').
    """
    opts = opts or {}
    procs = []
    problems = []
    with Scratch('out') as out:
        for i in range(nshards):
            dst = os.path.join(out, 'shard%d.json' % i)
            spec = {'module': module, 'prop': prop, 'tier': tier_, 'seed': seed(),
                    'shard': i, 'nshards': nshards, 'opts': opts, 'out': dst}
            p = subprocess.Popen([PY, '-m', 'kv.worker', json.dumps(spec)],
                                 env=child_env(**(env_extra or {})), cwd=out,
                                 stdout=subprocess.PIPE, stderr=subprocess.STDOUT)
            procs.append((i, p, dst))
        deadline = time.time() + timeout
        results = []
        for i, p, dst in procs:
            try:
                outb, _ = p.communicate(timeout=max(1, deadline - time.time()))
            except subprocess.TimeoutExpired:
                p.kill()
                outb, _ = p.communicate()
                problems.append('shard %d: watchdog expired' % i)
                continue
            if p.returncode != 0 or not os.path.exists(dst):
                tail = outb.decode('utf-8', 'replace')[-1500:]
                problems.append('shard %d: exit %s: %s' % (i, p.returncode, tail))
                continue
            with open(dst) as f:
                results.append(json.load(f))
    return merge(results), problems


def merge(results):
    m = {'cases': 0, 'digests': set(), 'counters': {}, 'samples': [], 'violations': [],
         'cells': {}, 'anchors': {}, 'notes': []}
    for r in results:
        m['cases'] += r.get('cases', 0)
        m['digests'].update(r.get('digests', []))
        for k, v in r.get('counters', {}).items():
            m['counters'][k] = m['counters'].get(k, 0) + v
        for k, v in r.get('cells', {}).items():
            m['cells'][k] = m['cells'].get(k, 0) + v
        for k, v in r.get('anchors', {}).items():
            m['anchors'][k] = m['anchors'].get(k, 0) + v
        m['samples'].extend(r.get('samples', [])[:3])
        m['violations'].extend(r.get('violations', []))
        m['notes'].extend(r.get('notes', []))
    m['samples'] = m['samples'][:6]
    return m


# ---------------------------------------------------------------------------------------
# known findings

def load_findings():
    """Entries of /verif/known_findings.jsonl. Only status=='open' entries suppress."""
    path = os.path.join(VERIF, 'known_findings.jsonl')
    out = []
    if os.path.exists(path):
        with open(path) as f:
            for line in f:
                line = line.strip()
                if line and not line.startswith('#'):
                    out.append(json.loads(line))
    return out


def classify(prop, violation, findings):
    """Return the open finding whose mechanism the violation's *witness* re-derives, or None.

    A violation carries 'mech': the list of mechanism ids its engine derived from the
    witness itself (never from configuration alone, never from random values). It is
    suppressed only if one of them is listed as open for this property.
    """
    mechs = violation.get('mech') or []
    for f in findings:
        if f.get('status') != 'open':
            continue
        if prop not in f.get('properties', [f.get('property')]):
            continue
        if f['id'] in mechs:
            return f
    return None


# ---------------------------------------------------------------------------------------
# evidence + verdict

LEVELS = {'C13': 'fault_enumeration'}


def write_evidence(prop, tier_, t0, merged, rule, floor, extra=None, assumptions=None,
                   n_viol=0, known=None):
    cov = {
        'evaluations': int(merged['cases']),
        'distinct_nontrivial': int(len(merged['digests'])),
        'rule': rule,
        'samples': merged['samples'] or [],
        'monitor_counters': merged['counters'],
        'configuration_cells': merged['cells'],
        'anchors_reached': merged['anchors'],
        'floor_distinct_nontrivial': floor,
        'known_findings_matched': known or {},
        'notes': list(merged.get('notes') or [])[:60],
    }
    if extra:
        cov.update(extra)
    ev = {
        'property_id': prop,
        'tier': tier_,
        'seed': seed(),
        'level': LEVELS.get(prop, 'exploration'),
        'coverage': cov,
        'assumptions': assumptions or [],
        'wall_s': round(time.time() - t0, 2),
        'violations': int(n_viol),
    }
    d = os.environ.get('VERIF_EVIDENCE_DIR') or os.path.join(VERIF, 'evidence')
    os.makedirs(d, exist_ok=True)
    tmp = os.path.join(d, '.%s.json.tmp' % prop)
    with open(tmp, 'w') as f:
        json.dump(ev, f, indent=1, sort_keys=True, default=repr)
    os.replace(tmp, os.path.join(d, '%s.json' % prop))
    return ev


def save_replay(prop, violation):
    d = os.environ.get('VERIF_REPLAY_DIR') or os.path.join(VERIF, 'replays')
    os.makedirs(d, exist_ok=True)
    name = '%s_%s.json' % (prop, digest(violation)[:10])
    path = os.path.join(d, name)
    with open(path, 'w') as f:
        json.dump(violation, f, indent=1, sort_keys=True, default=repr)
    return os.path.relpath(path, VERIF) if path.startswith(VERIF) else path


def conclude(prop, tier_, t0, merged, problems, rule, floor, engine, extra=None,
             assumptions=None, required_counters=(), required_anchors=()):
    """Apply the known-findings filter, write evidence, print verdict lines, return exit code."""
    findings = load_findings()
    mine = [v for v in merged['violations'] if v.get('property') == prop]
    new, known = [], {}
    for v in mine:
        f = classify(prop, v, findings)
        if f is None:
            new.append(v)
        else:
            known.setdefault(f['id'], {'count': 0, 'what': f.get('what', ''), 'example': None})
            known[f['id']]['count'] += 1
            if known[f['id']]['example'] is None:
                known[f['id']]['example'] = v.get('msg')
    inconclusive = list(problems)
    if len(merged['digests']) < floor:
        inconclusive.append('only %d distinct non-trivial cases (floor %d)'
                            % (len(merged['digests']), floor))
    for c in required_counters:
        if not merged['counters'].get(c):
            inconclusive.append('deciding monitor %r was never evaluated' % c)
    for a in required_anchors:
        if a in merged['anchors'] and not merged['anchors'][a]:
            inconclusive.append('source anchor %r was never executed' % a)
    ex = dict(extra or {})
    ex['engine'] = engine
    ex['inconclusive_reasons'] = inconclusive
    ex['new_violation_examples'] = [v.get('msg') for v in new[:5]]
    write_evidence(prop, tier_, t0, merged, rule, floor, ex, assumptions,
                   n_viol=len(new), known=known)
    for fid, k in sorted(known.items()):
        print('KNOWN-FINDING: property=%s %s [%s] (%d witnesses this run; e.g. %s)'
              % (prop, k['what'], fid, k['count'], k['example']))
    c = merged['counters']
    print('%s %s: %d cases, %d distinct non-trivial, counters: %s'
          % (prop, tier_, merged['cases'], len(merged['digests']),
             ', '.join('%s=%s' % kv for kv in sorted(c.items())[:40])))
    if new:
        seen = set()
        for v in new:
            key = (v.get('kind'), tuple(v.get('mech') or ()))
            if key in seen:
                continue
            seen.add(key)
            v = dict(v)
            v['engine'] = engine
            path = save_replay(prop, v)
            print('VIOLATION property=%s replay=%s' % (prop, path))
            print('  kind=%s: %s' % (v.get('kind'), v.get('msg')))
            if len(seen) >= 8:
                break
        print('%s: %d new violations (%d distinct kinds shown)' % (prop, len(new), len(seen)))
        return 1
    if inconclusive:
        for r in inconclusive[:4]:
            print('INCONCLUSIVE property=%s reason=%s' % (prop, ' | '.join(str(r).strip().splitlines()[-3:])[:400]))
        if len(inconclusive) > 4:
            print('INCONCLUSIVE property=%s (+%d more reasons, see evidence file)' % (prop, len(inconclusive) - 4))
        return 2
    print('%s: held on everything observed' % prop)
    return 0
