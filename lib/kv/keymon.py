"""keymon: binding-oracle engine for key generation (C09 C10 C11 C12) .

A generated callable (function / method / functools.partial) with a generated signature is
wrapped by a klepto decorator; pairs of calls whose relation is known *by construction* and
re-checked by an oracle that shares no code with klepto (inspect.signature().bind + a small
ignore-mask / rounding oracle) are keyed through f.key / klepto.keygen and called through an
inf_cache; the observed key (in)equality and hit/miss behaviour must match the relation.
"""
import functools
import inspect
import itertools
import time

from kv import gen
from kv.common import digest, import_klepto
from kv.gen import enc, dec

klepto = import_klepto()
import klepto.safe  # noqa: E402

MASK = '<<ignored>>'

# ---------------------------------------------------------------------------------------
# signatures

DEFAULT_POOL = [1, 'v', None, 2.5, (1, 2), 0]


def gen_spec(rng, allow_kwonly=True, allow_var=True, allow_kw=True, hostile_names=None):
    nreq = rng.choice([0, 1, 1, 2, 3])
    ndef = rng.choice([0, 0, 1, 2])
    if nreq + ndef == 0 and rng.random() < 0.6:
        nreq = 1
    req = ['a', 'b', 'c'][:nreq]
    dfl = [[n, enc(rng.choice(DEFAULT_POOL))] for n in ['d', 'e'][:ndef]]
    var = allow_var and rng.random() < 0.35
    kwonly = []
    if allow_kwonly:
        for n in ['k', 'm'][: rng.choice([0, 0, 0, 1, 2])]:
            if rng.random() < 0.6:
                kwonly.append([n, True, enc(rng.choice(DEFAULT_POOL))])
            else:
                kwonly.append([n, False, None])
    kw = allow_kw and rng.random() < 0.35
    if hostile_names and req and rng.random() < 0.15:
        # parameter names that klepto's own machinery also uses for its parameters
        req[0] = rng.choice(hostile_names)
    return {'req': req, 'def': dfl, 'var': var, 'kwonly': kwonly, 'kw': kw}


def spec_src(spec, self_first=False):
    parts = (['self'] if self_first else []) + list(spec['req'])
    parts += ['%s=_D[%r]' % (n, n) for n, _ in spec['def']]
    if spec['var']:
        parts.append('*args')
    elif spec['kwonly']:
        parts.append('*')
    for n, has, _ in spec['kwonly']:
        parts.append('%s=_D[%r]' % (n, n) if has else n)
    if spec['kw']:
        parts.append('**kw')
    return ', '.join(parts)


def spec_names(spec):
    return list(spec['req']) + [n for n, _ in spec['def']]


class Target(object):
    """the generated callable + its raw twin + evaluation log"""
    def __init__(self, spec, kind='func', partial=None, rmode='tuple'):
        self.spec, self.kind = spec, kind
        D = dict((n, dec(v)) for n, v in spec['def'])
        D.update((n, dec(v)) for n, has, v in spec['kwonly'] if has)
        self.defaults = D
        names = spec_names(spec) + (['args'] if spec['var'] else []) + [n for n, _, _ in spec['kwonly']]
        ret = "('R', %s%s)" % (''.join(n + ', ' for n in names),
                               'tuple(sorted(kw.items()))' if spec['kw'] else '')
        if rmode == 'str':
            ret = 'repr(%s)' % ret
        elif rmode == 'falsy':
            # a third of the bindings give None / 0 / '' / False (cf. gen.Probe)
            ret = '_FALSY(%s)' % ret
        seen = '(%s)' % ''.join(n + ', ' for n in names + (['kw'] if spec['kw'] else []))
        def _falsy(r):
            try:
                h = sum(ord(c) for c in repr(r)) % 9
            except Exception:
                return r
            return {0: None, 1: 0, 2: '', 3: False}.get(h, r)
        self.ns = {'__name__': '__kvprobe__', '_LOG': [], '_SEEN': [], '_D': D, '_FALSY': _falsy}
        if kind in ('bound', 'boundcls'):
            # a method object that is already bound when it is decorated: lru_cache(...)(obj.m) / (Cls.cm)
            src = ('class C(object):\n'
                   '%s%s'
                   '    def m(%s):\n'
                   '        _LOG.append(1); _SEEN.append(%s)\n'
                   '        return %s\n' % ('    def __len__(self):\n        return 0\n' if spec.get('_falsy') else '',
                                          '    @classmethod\n' if kind == 'boundcls' else '', spec_src(spec, True), seen, ret))
            exec(src, self.ns)
            self.inst = None
            self.plain = self.ns['C'].m if kind == 'boundcls' else self.ns['C']().m
        elif kind == 'sibling':
            # two functions made by one factory: the same code object, different default values. The elder one
            # is used through klepto first (see use_elder); the function under test is the younger one.
            src = ('def MAKE(_D):\n'
                   '    def P(%s):\n'
                   '        _LOG.append(1); _SEEN.append(%s)\n'
                   '        return %s\n'
                   '    return P\n' % (spec_src(spec), seen, ret))
            exec(src, self.ns)
            self.plain = self.ns['MAKE'](D)
            self.elder = self.ns['MAKE'](dict((n, 'elder-default-%s' % n) for n in D))
            self.inst = None
        elif kind == 'method':
            src = ('class C(object):\n'
                   '%s'
                   '    def m(%s):\n'
                   '        _LOG.append(1); _SEEN.append(%s)\n'
                   '        return %s\n' % ('    def __len__(self):\n        return 0\n' if spec.get('_falsy') else '',
                                          spec_src(spec, True), seen, ret))
            exec(src, self.ns)
            self.inst = self.ns['C']()
            self.plain = self.ns['C'].m           # the function to decorate
        else:
            src = ('def P(%s):\n'
                   '    _LOG.append(1); _SEEN.append(%s)\n'
                   '    return %s\n' % (spec_src(spec), seen, ret))
            exec(src, self.ns)
            self.plain = self.ns['P']
            self.inst = None
        self.pa, self.pk = (), {}
        if kind == 'partial':
            self.pa = tuple(dec(partial['args']))
            self.pk = dec(partial['kwds'])
            self.plain = functools.partial(self.plain, *self.pa, **self.pk)
        self.src = src

    @property
    def log(self):
        return self.ns['_LOG']

    @property
    def seen(self):
        return self.ns['_SEEN']

    def bound(self, args, kwds):
        """independent oracle: the map parameter -> value Python binds for this call"""
        if self.kind == 'partial':
            fn = self.plain.func
            a = tuple(self.pa) + tuple(args)
            k = dict(self.pk); k.update(kwds)
        elif self.kind == 'method':
            fn = self.ns['C'].m
            a, k = (self.inst,) + tuple(args), kwds
        else:
            fn, a, k = self.plain, args, kwds
        ba = inspect.signature(fn).bind(*a, **k)
        ba.apply_defaults()
        return dict(ba.arguments)

    def use_elder(self, deco, keygen_deco=None):
        """let klepto see the elder sibling first (decorate it, key and call it once)"""
        if self.kind != 'sibling':
            return
        args = [0 for _ in self.spec['req']]
        kwds = dict((n, 0) for n, has, _ in self.spec['kwonly'] if not has)
        n0 = len(self.log)
        for fn in (deco(self.elder), keygen_deco(self.elder) if keygen_deco is not None else None):
            if fn is None:
                continue
            try:
                fn(*args, **kwds)
                if hasattr(fn, 'key'):
                    fn.key(*args, **kwds)
            except Exception:
                pass
        del self.log[n0:]
        del self.seen[:]

    def decorate(self, deco):
        if self.kind == 'method':
            return deco(self.plain)
        return deco(self.plain)

    def call_through(self, f, args, kwds):
        if self.kind == 'method':
            return f(self.inst, *args, **kwds)
        return f(*args, **kwds)

    def key_through(self, f, args, kwds):
        if self.kind == 'method':
            return f.key(self.inst, *args, **kwds)
        return f.key(*args, **kwds)


# ---------------------------------------------------------------------------------------
# call forms

HASHABLE = [0, 1, 2, -1, 'a', 'b', '1', 'x', 'd', 'k', 2.5, None, (1,), (1, 2), ('a',), b'a',
            frozenset([1]), 'args', 'kw', '', 'None', '(1,)', "b'a'", "'a'", '2.5',
            # text that looks like part of a default repr / a path / markup: a key built from text must not
            # "normalise" it away
            'obj at 0x7f3a2c00 end', 'obj at 0x7f3a2c40 end', ' a', 'a ', 'A']
# values whose str()/repr() is another value of the pool: a key built from text must keep them apart
TWINS = {1: '1', '1': 1, None: 'None', 'None': None, (1,): '(1,)', '(1,)': (1,), b'a': "b'a'", "b'a'": b'a',
         'a': "'a'", "'a'": 'a', 2.5: '2.5', '2.5': 2.5,
         'obj at 0x7f3a2c00 end': 'obj at 0x7f3a2c40 end', 'obj at 0x7f3a2c40 end': 'obj at 0x7f3a2c00 end',
         ' a': 'a ', 'a ': ' a', 'A': 'a'}
UNHASHABLE = [[1], [1, 2], {'a': 1}, ['a']]
TYPED_PAIRS = [(1, 1.0), (1, True), (0, False), (2, 2.0), (0, 0.0)]


def assignment(rng, spec, pool, target=None):
    """a canonical assignment: values for every parameter (defaults by identity where kept)"""
    asg = {'pos': {}, 'var': [], 'kwonly': {}, 'kw': {}, 'defaulted': []}
    for n in spec['req']:
        asg['pos'][n] = rng.choice(pool)
    for n, _ in spec['def']:
        if rng.random() < 0.5:
            asg['defaulted'].append(n)       # keep the default object itself
        else:
            asg['pos'][n] = rng.choice(pool)
    if spec['var'] and not asg['defaulted']:
        asg['var'] = [rng.choice(pool) for _ in range(rng.choice([0, 0, 1, 2, 3]))]
        if not (spec['req'] or spec['def'] or spec['kwonly'] or spec['kw']):
            asg['var'] = [rng.choice(pool)]
    for n, has, _ in spec['kwonly']:
        if has and rng.random() < 0.5:
            asg['defaulted'].append(n)
        else:
            asg['kwonly'][n] = rng.choice(pool)
    if spec['kw']:
        for n in rng.sample(['p', 'q', 'zz'], rng.choice([0, 0, 1, 2])):
            asg['kw'][n] = rng.choice(pool)
    return asg


def spell(rng, spec, asg, defaults, fixed=0):
    """one spelling (args, kwds) of the assignment; `fixed` leading positionals are supplied by a partial"""
    names = [n for n in spec_names(spec)[fixed:] if n not in spec.get('_pk', ())]
    given = [n for n in names if n in asg['pos'] or n in asg['defaulted']]
    # parameters given positionally must form a prefix; omitted defaults end the prefix
    maxpos = 0
    for n in names:
        if n in asg['defaulted'] and rng.random() < 0.5:
            break
        maxpos += 1
    explicit_default = {}
    if asg['var']:
        npos = len(names)
        # every named parameter must be positional (defaults spelled with the same object)
    else:
        npos = rng.randint(0, maxpos)
    args, kwds = [], {}
    for i, n in enumerate(names):
        val = asg['pos'][n] if n in asg['pos'] else defaults[n]
        if i < npos:
            args.append(val)
        elif n in asg['pos']:
            kwds[n] = val
        elif rng.random() < 0.5:
            kwds[n] = val            # default spelled out with the same object
    args.extend(asg['var'])
    for n, has, _ in spec['kwonly']:
        if n in asg['kwonly']:
            kwds[n] = asg['kwonly'][n]
        elif rng.random() < 0.5:
            kwds[n] = defaults[n]
    kwds.update(asg['kw'])
    for n, v in (spec.get('_pkvals') or {}).items():
        if n not in kwds and rng.random() < 0.3:
            kwds[n] = v          # re-binding the partial's own value by keyword binds identically
    items = list(kwds.items())
    rng.shuffle(items)
    return args, dict(items)


def mutate(rng, spec, asg, pool, slots=None, typed_pair=False, fixed=0, near=False, defaults=None):
    """copy of asg with exactly one parameter slot changed; returns (new, slot) or None"""
    import copy
    new = {'pos': dict(asg['pos']), 'var': list(asg['var']), 'kwonly': dict(asg['kwonly']),
           'kw': dict(asg['kw']), 'defaulted': list(asg['defaulted'])}
    cands = [('pos', n) for n in asg['pos'] if n in spec_names(spec)[fixed:]]
    cands += [('var', i) for i in range(len(asg['var']))]
    cands += [('kwonly', n) for n in asg['kwonly']] + [('kw', n) for n in asg['kw']]
    if slots is not None:
        cands = [c for c in cands if c in slots]
    if defaults is not None and slots is None and not typed_pair and not near and not asg['var'] and rng.random() < 0.25:
        # a parameter left to its default in one call and given another value in the other
        dn = [n for n in asg['defaulted'] if n in defaults and n not in spec.get('_pk', ())]
        if dn:
            n = rng.choice(dn)
            opts = [v for v in pool if _ne(v, defaults[n])]
            if opts:
                new['defaulted'].remove(n)
                kwonly_names = [x[0] for x in spec['kwonly']]
                new['kwonly' if n in kwonly_names else 'pos'][n] = rng.choice(opts)
                return new, ('default-vs-passed', n)
    if not cands:
        return None
    where, which = rng.choice(cands)
    old = new[where][which]
    if typed_pair:
        opts = [b for a, b in TYPED_PAIRS if type(a) is type(old) and a == old] + \
               [a for a, b in TYPED_PAIRS if type(b) is type(old) and b == old]
        if not opts:
            return None
        val = rng.choice(opts)
    else:
        opts = [v for v in pool if _ne(v, old)]
        if near and isinstance(old, (list, tuple, dict, set, frozenset)) and rng.random() < 0.7:
            pv = perturb(rng, old)
            if pv is not None:
                opts = [pv]
        try:
            if not near and old in TWINS and rng.random() < 0.5:   # text twins are C10's subject, not C12's
                opts = [TWINS[old]]
        except TypeError:
            pass
        if near and isinstance(old, float) and rng.random() < 0.7:
            opts = [old + d for d in (1e-4, -1e-4, 0.004, -0.004, 0.04, -0.04, 0.4, 4.0, 40.0)]
            if 0 < abs(old) < 1e-15:
                opts = [old * 3, old * 0.5, 0.0, old + 1e-4]
            if abs(old) >= 2.0 ** 52:
                import math as _m
                opts = [old + k * _m.ulp(old) for k in (1, 2, 3, -1, 40)] + [old * 1.0003, old * 1.3]
        if near and isinstance(old, (_fr.Fraction, _dc.Decimal)) and rng.random() < 0.8:
            # a nearby non-float number: must stay a different argument whatever the tolerance
            opts = [old + type(old)(1) / type(old)(d) for d in (30, 300, 7)]
        if near and isinstance(old, complex) and rng.random() < 0.8:
            opts = [old + 0.004, old + 0.004j]
        if not opts:
            return None
        val = rng.choice(opts)
    new[where][which] = val
    return new, (where, which)


def perturb(rng, obj):
    """copy of a container with one float somewhere inside nudged by a small or a large amount"""
    d = rng.choice([1e-4, -1e-4, 0.004, -0.004, 0.04, -0.04, 0.4, 4.0])
    done = [False]

    def walk(o):
        if isinstance(o, float) and not done[0]:
            done[0] = True
            return o + d
        if isinstance(o, tuple) and hasattr(o, '_fields'):
            return type(o)(*[walk(v) for v in o])
        if type(o) not in (dict, list, tuple, set, frozenset):
            return o          # other container subclasses (OrderedDict, deque, ...) are passed on as they are
        if isinstance(o, dict):
            return dict((k, walk(v)) for k, v in o.items())
        if isinstance(o, (list, tuple, set, frozenset)):
            items = sorted(o, key=repr) if isinstance(o, (set, frozenset)) else list(o)
            return type(o)(walk(v) for v in items)
        return o
    new = walk(obj)
    return new if done[0] else None


def _ne(a, b):
    try:
        return bool(a != b)
    except Exception:
        return False


# ---------------------------------------------------------------------------------------
# ignore oracle

def gen_ignore(rng, spec, kind):
    names = spec_names(spec)
    ign = []
    for n in names:
        if rng.random() < 0.3:
            ign.append(n)
    # positional indices are not generated for methods: whether index 0 is the instance or the
    # first real parameter once 'self' is ignored is not fixed by the statement
    for i in range(len(names) + (2 if spec['var'] else 0)):
        if kind != 'method' and rng.random() < 0.15:
            ign.append(i)
    if spec['var'] and rng.random() < 0.4:
        ign.append('*')
    if spec['kw'] and rng.random() < 0.4:
        ign.append('**')
    if spec['kw'] and rng.random() < 0.2:
        ign.append(rng.choice(['p', 'q']))
    for n, _, _ in spec['kwonly']:
        if rng.random() < 0.2:
            ign.append(n)
    if kind == 'method' and rng.random() < 0.8:
        ign.append('self')
    rng.shuffle(ign)
    return ign


def ignored_slots(spec, ign, kind, fixed=0):
    """independent reading of the ignore specification -> set of slots of an assignment
    (for a partial, positional indices count the positionals of the call as the user makes it)"""
    names = (['self'] if kind == 'method' else []) + spec_names(spec)[fixed:]
    out = set()
    for i in ign:
        if isinstance(i, str) and i not in ('*', '**'):
            if i in names:
                out.add(('pos', i))
            elif any(i == n for n, _, _ in spec['kwonly']):
                out.add(('kwonly', i))
            else:
                out.add(('kw', i))
        elif isinstance(i, int):
            if i < len(names):
                out.add(('pos', names[i]))
            else:
                out.add(('var', i - len(names)))
    return out, '*' in ign, '**' in ign


# ---------------------------------------------------------------------------------------
# rounding oracle (written from the property text; uses Python's own round)

def oracle_round(obj, tol, deep, depth=0):
    if tol is None:
        return obj
    if isinstance(obj, float):
        return round(obj, tol)
    if not deep:
        return obj
    if isinstance(obj, (str, bytes)):
        return obj
    if isinstance(obj, dict):
        return dict((k, oracle_round(v, tol, True, depth + 1)) for k, v in obj.items())
    if isinstance(obj, tuple) and hasattr(obj, '_fields'):
        return type(obj)(*[oracle_round(v, tol, True, depth + 1) for v in obj])     # a namedtuple is a tuple
    if isinstance(obj, (list, tuple, set, frozenset)):
        return type(obj)(oracle_round(v, tol, True, depth + 1) for v in obj)
    return obj


def shallow_oracle(obj, tol):
    """one level deep: top-level floats and floats directly inside list/tuple/set/frozenset"""
    if isinstance(obj, float):
        return round(obj, tol)
    if isinstance(obj, (list, tuple, set, frozenset)):
        return type(obj)(round(v, tol) if isinstance(v, float) else v for v in obj)
    return obj


import fractions as _fr
import decimal as _dc
ROUND_SCALARS = [1.25, 1.35, 2.5, 0.5, 1.5, -0.5, 1.0049, 1.005, 123.456, 149.9, 150.0, 151.0,
                 0.30000000000000004, 0.3, 1e-09, 0.0, 1.26, 1.24, 2.51, 7, -3, 'abc', 'a', b'xy', None,
                 # numbers that are not floats: never to be rounded
                 _fr.Fraction(1, 3), _fr.Fraction(63, 50), _dc.Decimal('1.26'), True, 10 ** 20 + 1, 1.5 + 0.26j,
                 # floats beyond 2**52 (no fractional part left, but negative tolerances still round them)
                 4503599627370497.0, 9007199254740994.0, 1.2340e30,
                 # ... and tiny ones, which tolerances beyond the 15 significant digits of a float still round to zero
                 1e-17, 3e-17, 1e-301]
ROUND_NESTED = [[1.26, 'a'], (1.26, [2.51, 3]), {'p': 1.26}, {'p': [1.24, {'q': 2.51}]},
                [1.24, 'a'], (1.24, [2.49, 3]), {'p': 1.24}, [[1.26]], [[1.24]], (7, 'abc'),
                (1.26, 'x'), frozenset([0.52, 'x']), (frozenset([1.26, 2]), 'y'), (1.2, (2.4, 'a'))]
ROUND_HOSTILE = [{'__d__': [[1, 1.26]]}, {'__d__': [[1, 1.24]]}, {'__r__': [0, 3, 1]},
                 {'__s__': [1.26, 2]}, {'__fs__': [1.24, 2]}, {'__d__': [[{'__t__': [1, 2]}, 'v']]},
                 # subclasses of the containers named in the property: rounding must at least leave such calls valid
                 {'__od__': [['p', 1.26], ['q', 'a']]}, {'__dd__': [['p', 1.26]]}, {'__nt__': [1.26, 'a']},
                 {'__dq__': [1.26, 2]}, [{'__dd__': [['p', 1.24]]}], {'p': {'__nt__': [2.51, 3]}}]


# ---------------------------------------------------------------------------------------
# building the decorated function

ALGOS = ['no', 'inf', 'lfu', 'lru', 'mru', 'rr']
RECREATED = [0]


def make_deco(case, maxsize=None, cache=None):
    mod = klepto.safe if case.get('safe') else klepto
    cls = getattr(mod, case.get('deco', 'inf') + '_cache')
    kw = {'keymap': gen.build_keymap(klepto, case['keymap'])}
    if cache is not None:
        kw['cache'] = cache
    if case.get('ignore'):
        ign = case['ignore']
        # a single name or index may be given bare (ignore=0, ignore='x'), as the docs allow
        kw['ignore'] = ign[0] if (case.get('ignore_scalar') and len(ign) == 1) else tuple(ign)
    if case.get('tol') is not None:
        kw['tol'] = case['tol']
        kw['deep'] = bool(case.get('deep'))
    if case.get('deco', 'inf') in ('lfu', 'lru', 'mru', 'rr'):
        kw['maxsize'] = 50
    d = cls(**kw)
    how = case.get('recreate')
    if how and cache is None:
        import copy as _copy
        if how == 'copy':
            d = _copy.copy(d)
        elif how == 'deepcopy':
            d = _copy.deepcopy(d)
        else:
            import dill as _dill
            d = _dill.loads(_dill.dumps(d))
        RECREATED[0] += 1
    return d


def make_keygen(case):
    kw = {'keymap': gen.build_keymap(klepto, case['keymap'])}
    if case.get('tol') is not None:
        kw['tol'] = case['tol']
        kw['deep'] = bool(case.get('deep'))
    return klepto.keygen(*tuple(case.get('ignore') or ()), **kw)


def gen_partial(rng, spec, pool):
    names = spec_names(spec)
    npos = rng.randint(0, min(2, len(names)))
    pa = [rng.choice(pool) for _ in range(npos)]
    pk = {}
    rest = names[npos:]
    for n in rest[::-1][:1]:
        if rng.random() < 0.4:
            pk[n] = rng.choice(pool)
    for n, has, _ in spec['kwonly']:
        if rng.random() < 0.3:
            pk[n] = rng.choice(pool)
    return {'args': enc(pa), 'kwds': enc(pk)}, npos, pk


# ---------------------------------------------------------------------------------------
# one case = one (callable, keymap, options) cell with a batch of related call pairs

def gen_case(rng, prop):
    kind = rng.choice(['func', 'func', 'func', 'method', 'partial', 'sibling', 'bound', 'boundcls'])
    if prop == 'C12':
        kind = rng.choice(['func', 'func', 'method'])
    spec = gen_spec(rng, hostile_names=(['self', 'func', 'ignored', 'tol', 'deep', 'kwds'] if kind in ('func', 'sibling', 'partial') else None))
    if kind in ('method', 'bound') and rng.random() < 0.3:
        spec['_falsy'] = True        # the instance is "empty" (__len__() == 0): still an instance
    if prop == 'C10' and rng.random() < 0.15:
        # a lone variadic positional: the only shape whose flat key is a bare, unwrapped scalar
        spec = {'req': [], 'def': [], 'var': True, 'kwonly': [], 'kw': False}
        kind = 'func'
    elif prop == 'C10' and rng.random() < 0.12:
        # purely variadic: positionals and keywords are kept apart by the sentinel alone
        spec = {'req': [], 'def': [], 'var': True, 'kwonly': [], 'kw': True}
        kind = 'func'
    kms = gen.keymap_cfgs(info_preserving=False)
    km = rng.choice(kms)
    kk = gen.key_kind(km)
    pool = list(HASHABLE)
    if kk not in ('raw', 'int') and prop in ('C09', 'C10'):
        pool += UNHASHABLE
    if kk == 'raw' and not km['flat'] or (kk == 'int' and not km['flat']):
        km = dict(km); km['flat'] = True; km['sentinel'] = False   # (args, kwds) is unhashable raw
    case = {'spec': spec, 'kind': kind, 'keymap': km, 'deco': rng.choice(ALGOS),
            'safe': rng.random() < 0.3, 'prop': prop, 'seed': rng.randrange(1 << 30)}
    fixed = 0
    pk = {}
    if kind == 'partial':
        case['partial'], fixed, pk = gen_partial(rng, spec, [1, 'a', None, (1, 2)])
    if prop == 'C09':
        if rng.random() < 0.2:
            case['tol'] = rng.choice([0, 1, 2]); case['deep'] = rng.random() < 0.3
        if rng.random() < 0.2 and kind != 'method':
            ign = [i for i in gen_ignore(rng, spec, kind) if not isinstance(i, int)]
            if ign:
                case['ignore'] = ign
    if prop == 'C11':
        case['ignore'] = gen_ignore(rng, spec, kind)
        if rng.random() < 0.25:
            names = spec_names(spec)
            if names and kind == 'func':
                case['ignore'] = [rng.choice([0, names[0], names[-1], len(names) - 1])]
                case['ignore_scalar'] = True
    if prop == 'C12':
        case['tol'] = rng.choice([None, -2, -1, 0, 1, 3, 3, 16, 300])
        case['deep'] = rng.random() < 0.5
    # the configured decorator is sometimes re-created before it is applied (copied, or pickled as when it is shipped
    # to a worker): the copy must be configured like the original
    case['recreate'] = rng.choice([None, None, None, 'copy', 'deepcopy', 'pickle'])
    return case


def sample_info(case):
    return {'sig': spec_src(case['spec']), 'kind': case['kind'], 'keymap': case['keymap'],
            'ignore': case.get('ignore'), 'tol': case.get('tol'), 'deep': case.get('deep'),
            'deco': ('safe.' if case.get('safe') else '') + case['deco'],
            'partial': case.get('partial')}


class Judge(object):
    def __init__(self, case):
        self.case = case
        self.viol = []
        self.cnt = {}
        self.samples = []

    def note(self, c, n=1):
        self.cnt[c] = self.cnt.get(c, 0) + n

    def bad(self, prop, kind, msg, mech=(), **kw):
        v = {'property': prop, 'kind': kind, 'msg': msg[:700], 'mech': list(mech), 'case': self.case}
        v.update(kw)
        self.viol.append(v)


def srepr(v):
    try:
        r = repr(v)
    except Exception:
        return '<unreprable>'
    if len(r) > 3000:
        r = '%s ...[%d characters]... %s' % (r[:300], len(r) - 600, r[-300:])
    return r


def info_preserving(case):
    km = case['keymap']
    if km['cls'] == 'hashmap' and km['type'] is None:
        return False
    if km['flat'] and case['spec']['var'] and not km['sentinel']:
        return False
    return True


def run_case(case, prop):
    rng = gen.make_rng('keymon-run', case['seed'])
    J = Judge(case)
    spec, kind = case['spec'], case['kind']
    tgt = Target(spec, kind, case.get('partial'))
    fixed = len(tgt.pa)
    pool = list(HASHABLE)
    kk = gen.key_kind(case['keymap'])
    if kk not in ('raw', 'int') and prop in ('C09', 'C10'):
        pool += UNHASHABLE
    if prop == 'C09' and case.get('tol') is not None:
        pool += [2.04, 1.52, 0.12345, 1.005, 2.675, -0.2, -0.04, -0.0]     # (some round to negative zero)
        pool += [_fr.Fraction(5, 3), _dc.Decimal('1.26')]                   # real numbers that are not floats
    if kind == 'sibling':
        pool = ['elder-default-%s' % n for n in tgt.defaults] * 3 + pool     # what the other sibling defaults to
    try:
        tgt.use_elder(make_deco(case), make_keygen(case))
        f = tgt.decorate(make_deco(case))
        kg = make_keygen(case)(tgt.plain)
        if rng.random() < 0.5:
            # an unrelated decorator / key generator with *other* settings created afterwards: what one instance was
            # configured with must not leak into another (state kept in module globals or shared closures)
            other = dict(case)
            other['tol'] = {None: 0, 0: None}.get(case.get('tol'), None if rng.random() < 0.5 else 0)
            other['deep'] = not case.get('deep')
            other['ignore'] = None
            km2 = dict(case['keymap']); km2['typed'] = not km2['typed']
            other['keymap'] = km2
            bystander = make_deco(other)(lambda *a, **k: None)
            make_keygen(other)(lambda *a, **k: None)
            try:
                bystander(1.26, x=[2.51])
            except Exception:
                pass
            J.note('bystander_decorators')
    except Exception as e:
        J.bad(prop, 'decorating-failed', '%s: %s' % (type(e).__name__, str(e)[:200]))
        return J
    # parameters fixed by the partial cannot be re-bound by the caller
    spec_call = spec
    if kind == 'partial':
        spec_call = dict(spec)
        spec_call['kwonly'] = [x for x in spec['kwonly'] if x[0] not in tgt.pk]
        spec_call['_pk'] = sorted(tgt.pk)
        spec_call['_pkvals'] = dict(tgt.pk)
    npairs = 12
    for _ in range(npairs):
        asg = assignment(rng, spec_call, pool)
        if kind == 'partial':
            # named parameters fixed by keyword in the partial stay at the partial's value
            for n in list(asg['pos']):
                if n in tgt.pk or n in spec_names(spec)[:fixed]:
                    del asg['pos'][n]
            asg['defaulted'] = [n for n in asg['defaulted'] if n not in tgt.pk]
        if prop == 'C09':
            judge_equiv(J, tgt, f, kg, rng, spec_call, asg, fixed)
        elif prop == 'C10':
            judge_distinct(J, tgt, f, kg, rng, spec_call, asg, fixed, pool)
            if kind == 'partial' and tgt.pk and rng.random() < 0.5:
                # a keyword fixed by the partial can still be overridden by the caller: p(1) and p(1, k=other)
                # bind different values (the function's own default for k is the most telling "other")
                n = rng.choice(sorted(tgt.pk))
                others = [v for v in ([tgt.defaults[n]] if n in tgt.defaults else []) + pool if _ne(v, tgt.pk[n])]
                if others:
                    c1 = spell(rng, spec_call, asg, tgt.defaults, fixed)
                    c1[1].pop(n, None)
                    c2 = (list(c1[0]), dict(c1[1]))
                    c2[1][n] = others[0] if rng.random() < 0.6 else rng.choice(others)
                    J.note('c10_partial_keyword_overrides')
                    check_distinct(J, tgt, f, kg, c1, c2, ('partial-kw', n), False)
        elif prop == 'C11':
            judge_ignore(J, tgt, f, kg, rng, spec_call, asg, fixed, pool)
        elif prop == 'C12':
            judge_round(J, tgt, f, kg, rng, spec_call, asg, fixed)
    if prop == 'C11' and kind in ('func', 'sibling') and '**' in (case.get('ignore') or []):
        judge_wrapper_after_use(J, tgt, f, case, rng)
    return J


def judge_wrapper_after_use(J, tgt, f, case, rng):
    """the function has been keyed through klepto; only now a variadic functools.wraps wrapper of it is made and
    cached with '**' ignored (wraps copies the function's __dict__, i.e. whatever has been attached to it meanwhile).
    The wrapper's own signature is (*args, **kwds): every keyword is an extra one and must not reach the key."""
    import functools
    plain = tgt.plain

    @functools.wraps(plain)
    def w(*args, **kwds):
        return plain(*args, **kwds)
    try:
        fw = make_deco(dict(case, ignore=['**'], recreate=None))(w)
    except Exception:
        return
    names = [x[0] for x in case['spec']['kwonly']] + ['zz'] + spec_names(case['spec'])[-1:]
    for n in names:
        try:
            k1, k2 = fw.key(1, **{n: 1}), fw.key(1, **{n: 2})
        except Exception:
            continue
        J.note('c11_wrapper_after_use_pairs')
        if not _same(k1, k2):
            J.bad('C11', 'ignored-argument-changed-key',
                  "a functools.wraps wrapper (*args, **kwds) made after the function was used, cached with ignore='**': "
                  'w(1, %s=1) and w(1, %s=2) differ only in an extra keyword but get keys %s and %s'
                  % (n, n, srepr(k1)[:100], srepr(k2)[:100]), mech=memo_only_mech(case, k1, k2))
            return


def _call_ok(tgt, args, kwds):
    try:
        return tgt.bound(args, kwds)
    except TypeError:
        return None


def _keys(J, tgt, f, kg, args, kwds):
    """(key via f.key, key via klepto.keygen) or None if key generation raises"""
    try:
        k1 = tgt.key_through(f, args, kwds)
    except Exception as e:
        return None, e
    try:
        if tgt.kind == 'method':
            k2 = kg(tgt.inst, *args, **kwds)
        else:
            k2 = kg(*args, **kwds)
    except Exception as e:
        return None, e
    return (k1, k2), None


def canon_repr(bound):
    """order-independent printable form of a bound-argument map (types visible)"""
    out = []
    for k in sorted(bound):
        v = bound[k]
        if isinstance(v, dict):
            v = sorted(v.items(), key=lambda kv: repr(kv[0]))
        out.append((k, repr(v)))
    return repr(out)


def _same(a, b):
    try:
        return bool(a == b)
    except Exception:
        return False


def _legit_key_failure(case, c, tgt=None, exc=None):
    """may building the key legitimately fail for this call?  python's hash() of an unhashable argument; a
    serializer that cannot pickle the instance a method is called on (the harness's classes are not importable)"""
    if tgt is not None and tgt.kind == 'method' and 'self' not in (case.get('ignore') or []) \
            and case['keymap']['cls'] == 'picklemap' and 'ickl' in type(exc).__name__:
        return True
    if gen.key_kind(case['keymap']) != 'int':
        return False
    return not all(_hashable(v) for v in list(c[0]) + list(c[1].values()))


def behaviour(J, tgt, case, first, second, own_deco=False):
    """fresh cache: call `first` then `second`; -> (evaluations of second, result of second)"""
    c2 = dict(case)
    if not own_deco or case.get('deco') == 'no':
        c2['deco'] = 'inf'
    g = tgt.decorate(make_deco(c2))
    tgt.call_through(g, *first)
    n0 = len(tgt.log)
    r = tgt.call_through(g, *second)
    return len(tgt.log) - n0, r


def behaviour_archived(tgt, case, first, second):
    """call `first`, dump to a pickling file archive, clear the memory, call `second`: evaluations of second"""
    from kv.common import Scratch
    import os
    with Scratch('km') as root:
        c2 = dict(case)
        c2['deco'] = 'inf'
        import hashlib
        proto = [None, 0, 1, 2, 4][int(hashlib.md5(repr(first).encode()).hexdigest(), 16) % 5]
        arch = klepto._archives.file_archive(os.path.join(root, 'a.pkl'), protocol=proto)
        deco = make_deco(c2, cache=klepto.archives.cache(archive=arch))
        g = tgt.decorate(deco)
        tgt.call_through(g, *first)
        g.dump()
        g.clear()
        n0 = len(tgt.log)
        tgt.call_through(g, *second)
        return len(tgt.log) - n0


def nonflat_order_mech(tgt, case, c1, c2):
    """witness-derived classifier for the known keyword-order leak of non-flat keymaps"""
    if case['keymap']['flat']:
        return []
    try:
        from klepto._inspect import _keygen
        ign = tuple(case.get('ignore') or ())
        a1 = ((tgt.inst,) if tgt.kind == 'method' else ()) + tuple(c1[0])
        a2 = ((tgt.inst,) if tgt.kind == 'method' else ()) + tuple(c2[0])
        r1 = _keygen(tgt.plain, ign, *a1, **c1[1])
        r2 = _keygen(tgt.plain, ign, *a2, **c2[1])
        if r1[0] == r2[0] and r1[1] == r2[1] and list(r1[1]) != list(r2[1]):
            return ['nonflat-kwd-order']
    except Exception:
        pass
    return []


def unrounded_default_mech(tgt, case, c1, c2):
    """witness-derived: a tolerance is set, and one call leaves a parameter to its float default d with
    round(d, tol) != d while the other spells that same default out - klepto rounds the values the
    caller passes but not the defaults it fills in"""
    tol = case.get('tol')
    if tol is None:
        return []
    for n, d in tgt.defaults.items():
        if isinstance(d, float) and round(d, tol) != d:
            in1, in2 = n in c1[1], n in c2[1]
            names = spec_names(case['spec'])
            pos1 = n in names and names.index(n) < len(c1[0]) + (len(tgt.pa) if tgt.kind == 'partial' else 0)
            pos2 = n in names and names.index(n) < len(c2[0]) + (len(tgt.pa) if tgt.kind == 'partial' else 0)
            if (in1 or pos1) != (in2 or pos2):
                return ['tol-rounds-passed-values-not-defaults']
    return []


def fresh(v):
    """an equal value of the same type built from scratch: no object shared with the original (as far as
    CPython allows: small ints, 0/1-character strings, empty tuples are singletons)"""
    if isinstance(v, bool) or v is None:
        return v
    if type(v) is str:
        return ''.join([c for c in v])
    if type(v) is bytes:
        return bytes(bytearray(v))
    if type(v) is int:
        return int(str(v))
    if type(v) is float:
        return float(repr(v))
    if type(v) is tuple:
        return tuple([fresh(i) for i in v])
    if type(v) is list:
        return [fresh(i) for i in v]
    if type(v) is dict:
        return dict((fresh(k), fresh(x)) for k, x in v.items())
    if type(v) in (set, frozenset):
        return type(v)([fresh(i) for i in v])
    return v


def identity_mech(case, c1, c2):
    """witness-derived: the two calls are equal value by value (same types, same reprs) and differ only in
    *which objects* carry the values, and the keymap pickles the key with a serializer - pickle's memo then
    encodes a repeated object as a back-reference, so the key bytes depend on object identity"""
    km = case['keymap']
    if km['cls'] != 'picklemap' or km['type'] is None:
        return []
    try:
        if list(c1[1]) == list(c2[1]) and repr(c1) == repr(c2):
            return ['picklemap-key-depends-on-object-identity']
    except Exception:
        pass
    return []


def memo_only_mech(case, x, y):
    """witness-derived, on the two keys themselves: the keymap pickles the key with a serializer, the two byte strings
    differ, and they unpickle to equal keys with identical reprs (same values, same types, same order) - the bytes
    differ only in where pickle's memo wrote a back-reference, i.e. in which *objects* carry the values (e.g. the
    ignore names of a decorator that was itself restored from a pickle are no longer the signature's name strings)"""
    km = case['keymap']
    if km['cls'] != 'picklemap' or km['type'] is None or km.get('outer'):
        return []
    try:
        import pickle as _p, dill as _d
        if not (isinstance(x, bytes) and isinstance(y, bytes)) or x == y:
            return []
        a, b = _d.loads(x), _d.loads(y)
        if a == b and repr(a) == repr(b):
            return ['picklemap-key-depends-on-object-identity']
    except Exception:
        pass
    return []


def judge_equiv(J, tgt, f, kg, rng, spec, asg, fixed):
    c1 = spell(rng, spec, asg, tgt.defaults, fixed)
    if rng.random() < 0.25:
        # the same call, every value an equal but freshly built object (a string read from a file instead of a
        # literal, a tuple built at run time): no sharing with the defaults, the parameter names or other arguments
        c2 = ([fresh(v) for v in c1[0]], dict((k, fresh(v)) for k, v in c1[1].items()))
        J.note('c09_pairs_fresh_objects')
        check_equiv(J, tgt, f, kg, c1, c2, extra_mech=identity_mech(J.case, c1, c2))
        return
    c2 = spell(rng, spec, asg, tgt.defaults, fixed)
    check_equiv(J, tgt, f, kg, c1, c2)


def check_equiv(J, tgt, f, kg, c1, c2, extra_mech=()):
    case = J.case
    b1, b2 = _call_ok(tgt, *c1), _call_ok(tgt, *c2)
    if b1 is None or b2 is None or not _same(b1, b2):
        J.note('oracle_dropped')
        return
    trivial = (list(c1[0]) == list(c2[0]) and list(c1[1].items()) == list(c2[1].items())) and not extra_mech
    ks1, e1 = _keys(J, tgt, f, kg, *c1)
    ks2, e2 = _keys(J, tgt, f, kg, *c2)
    J.note('c09_pairs')
    if not trivial:
        J.note('c09_pairs_respelled')
        J.nontrivial = True
    if ks1 is None or ks2 is None:
        if (ks1 is None) != (ks2 is None):
            J.bad('C09', 'key-raises-for-one-spelling',
                  'key() raised for one spelling only: %s vs %s: %r / %r' % (srepr(c1), srepr(c2), e1, e2))
        elif not _legit_key_failure(case, c1, tgt, e1):
            # a valid call with plain arguments has no key at all (so it can never be served from the cache)
            J.bad('C09', 'key-raises-for-valid-call',
                  '%s %s: key() raises %s: %s for the valid call %s' % (tgt.kind, spec_src(case['spec']),
                                                                      type(e1).__name__, str(e1)[:120], srepr(c1)))
        return
    for which, (x, y) in (('f.key', (ks1[0], ks2[0])), ('keygen', (ks1[1], ks2[1]))):
        if not _same(x, y):
            J.bad('C09', 'equivalent-calls-different-keys',
                  '%s: calls %s and %s bind identically but get keys %s and %s'
                  % (which, srepr(c1), srepr(c2), srepr(x)[:150], srepr(y)[:150]),
                  mech=nonflat_order_mech(tgt, case, c1, c2) + unrounded_default_mech(tgt, case, c1, c2) + list(extra_mech)
                  + memo_only_mech(case, x, y),
                  pair=[enc(list(c1)), enc(list(c2))])
            return
    try:
        n, r = behaviour(J, tgt, case, c1, c2, own_deco=True)
    except TypeError:
        J.note('c09_behaviour_skipped_unhashable')
        return
    J.note('c09_behaviour_checks')
    if n != 0:
        J.bad('C09', 'equivalent-call-recomputed',
              'after %s the identically-binding call %s was evaluated again' % (srepr(c1), srepr(c2)),
              mech=nonflat_order_mech(tgt, case, c1, c2) + unrounded_default_mech(tgt, case, c1, c2) + list(extra_mech))


def judge_flattening(J, tgt, f, kg, rng, spec, pool):
    """positionals that spell out the flattened (name, value) form of another call's keywords:
    f('p', 1, 'q', 2) vs f(p=1, q=2) - a flat key needs its sentinel to keep them apart"""
    names = rng.sample(['p', 'q', 'zz'], rng.choice([1, 2]))
    vals = [rng.choice([0, 1, 'a', None, 2.5]) for _ in names]
    kwcall = ([], dict(zip(names, vals)))
    flat = []
    for n, v in sorted(zip(names, vals)):
        flat += [n, v]
    poscall = (flat, {})
    if tgt.kind == 'method' or spec['req'] or spec['def'] or spec['kwonly']:
        return
    J.note('c10_flattening_pairs')
    check_distinct(J, tgt, f, kg, poscall, kwcall, 'flattening', False)


def judge_distinct(J, tgt, f, kg, rng, spec, asg, fixed, pool):
    case = J.case
    if spec['var'] and spec['kw'] and rng.random() < 0.5:
        judge_flattening(J, tgt, f, kg, rng, spec, pool)
    typed_leg = case['keymap']['typed'] and rng.random() < 0.4
    if typed_leg:
        # arguments that have an ==-equal partner of another type
        asg = assignment(rng, spec, [0, 1, 2, 1.0, 2.0, 0.0, True, False, 'a'])
        for n in list(asg['pos']):
            if n in spec.get('_pk', ()) or n in spec_names(spec)[:fixed]:
                del asg['pos'][n]
        asg['defaulted'] = [n for n in asg['defaulted'] if n not in spec.get('_pk', ())]
    m = mutate(rng, spec, asg, pool, typed_pair=typed_leg, fixed=fixed, defaults=tgt.defaults)
    if typed_leg and rng.random() < 0.4:
        # type swap across two slots: (.., 1, .., 2.0) vs (.., 1.0, .., 2) - the same multiset of
        # types, so only a key that keeps each type aligned with its argument separates them
        slots2 = [('pos', n) for n in asg['pos']] + [('kwonly', n) for n in asg['kwonly']] + \
                 [('kw', n) for n in asg['kw']] + [('var', i) for i in range(len(asg['var']))]
        if len(slots2) >= 2:
            import copy
            s1, s2 = rng.sample(slots2, 2)
            (p1, p2) = rng.sample(TYPED_PAIRS, 2)
            asg = copy.deepcopy(asg)
            asg2 = copy.deepcopy(asg)
            asg[s1[0]][s1[1]], asg[s2[0]][s2[1]] = p1[0], p2[1]
            asg2[s1[0]][s1[1]], asg2[s2[0]][s2[1]] = p1[1], p2[0]
            m = (asg2, (s1, s2))
            J.note('c10_type_swap_pairs')
    if m is None:
        J.note('c10_no_mutation')
        return
    asg2, slot = m
    if typed_leg and rng.random() < 0.3:
        m2 = mutate(rng, spec, asg2, pool, typed_pair=True, fixed=fixed)   # e.g. (1, 2.0) vs (1.0, 2)
        if m2 is not None:
            asg2, slot = m2[0], (slot, m2[1])
    # usually the same spelling shape for both (canonicalisation is C09's subject); sometimes an
    # independent spelling, because a key must discriminate however the call is written
    st = rng.getstate()
    c1 = spell(rng, spec, asg, tgt.defaults, fixed)
    if rng.random() < 0.6:
        rng.setstate(st)
    c2 = spell(rng, spec, asg2, tgt.defaults, fixed)
    check_distinct(J, tgt, f, kg, c1, c2, slot, typed_leg)


def check_distinct(J, tgt, f, kg, c1, c2, slot, typed_leg):
    case = J.case
    b1, b2 = _call_ok(tgt, *c1), _call_ok(tgt, *c2)
    if b1 is None or b2 is None:
        J.note('oracle_dropped')
        return
    if typed_leg:
        if not _same(b1, b2) or canon_repr(b1) == canon_repr(b2):
            J.note('oracle_dropped')
            return
    elif _same(b1, b2):
        J.note('oracle_dropped')
        return
    if not info_preserving(case):
        J.note('c10_skipped_not_info_preserving')
        return
    ks1, e1 = _keys(J, tgt, f, kg, *c1)
    ks2, e2 = _keys(J, tgt, f, kg, *c2)
    if ks1 is None or ks2 is None:
        J.note('c10_key_raised')
        return
    J.note('c10_typed_pairs' if typed_leg else 'c10_pairs')
    J.nontrivial = True
    for which, (x, y) in (('f.key', (ks1[0], ks2[0])), ('keygen', (ks1[1], ks2[1]))):
        if _same(x, y):
            J.bad('C10', 'typed-calls-share-key' if typed_leg else 'distinct-calls-share-key',
                  '%s: calls %s and %s differ in %r but share key %s'
                  % (which, srepr(c1), srepr(c2), slot, srepr(x)[:150]),
                  mech=bare_scalar_mech(tgt, case, c1, c2),
                  pair=[enc(list(c1)), enc(list(c2))] if len(repr(c1)) < 5000 else None)
            return
    if typed_leg:
        return
    try:
        n, r = behaviour(J, tgt, case, c1, c2)
    except TypeError:
        return
    J.note('c10_behaviour_checks')
    want = tgt.call_through(tgt.plain if tgt.kind != 'method' else tgt.ns['C'].m, *c2) if False else None
    if n != 1:
        J.bad('C10', 'distinct-call-answered-from-cache',
              'after %s the different call %s was not evaluated' % (srepr(c1), srepr(c2)),
              mech=bare_scalar_mech(tgt, case, c1, c2))


def bare_scalar_mech(tgt, case, c1, c2):
    km = case['keymap']
    if not (km['cls'] == 'stringmap' and km['type'] is None and km['flat'] and not km['typed']):
        return []
    try:
        from klepto._inspect import _keygen
        plain = dict(km); plain['cls'] = 'keymap'
        rawmap = gen.build_keymap(klepto, plain)
        ign = tuple(case.get('ignore') or ())
        out = []
        for c in (c1, c2):
            a = ((tgt.inst,) if tgt.kind == 'method' else ()) + tuple(c[0])
            ra, rk = _keygen(tgt.plain, ign, *a, **c[1])
            out.append(rawmap(*ra, **rk))
        if not isinstance(out[0], tuple) and not isinstance(out[1], tuple) and str(out[0]) == str(out[1]):
            return ['stringmap-str-of-bare-scalar']
    except Exception:
        pass
    return []


def judge_ignored_instance(J, tgt, f, kg, rng, spec, asg, fixed):
    """'the instance for methods': with ignore=('self', ...) the same call on two instances of the class - one of
    them 'empty' (falsy) - shares one key, and building the key must work for both"""
    case = J.case
    c = spell(rng, spec, asg, tgt.defaults, fixed)
    if _call_ok(tgt, *c) is None:
        return
    other = type('C2', (type(tgt.inst),), {'__len__': (lambda self: 3) if spec.get('_falsy') else (lambda self: 0)})()
    keys = []
    for inst in (tgt.inst, other):
        try:
            keys.append((f.key(inst, *c[0], **c[1]), kg(inst, *c[0], **c[1])))
        except Exception as e:
            keys.append(e)
    J.note('c11_instance_pairs')
    if isinstance(keys[0], Exception) != isinstance(keys[1], Exception):
        e = keys[0] if isinstance(keys[0], Exception) else keys[1]
        J.bad('C11', 'ignored-instance-made-key-fail',
              'ignore=%r: key(%s) works on one instance and raises %s: %s on another (a falsy one) of the same class'
              % (case['ignore'], srepr(c), type(e).__name__, str(e)[:100]))
    elif not isinstance(keys[0], Exception) and not (_same(keys[0][0], keys[1][0]) and _same(keys[0][1], keys[1][1])):
        J.bad('C11', 'ignored-instance-changed-key',
              'ignore=%r: the call %s on two instances of the class gets keys %s and %s although the instance is ignored'
              % (case['ignore'], srepr(c), srepr(keys[0][0])[:100], srepr(keys[1][0])[:100]),
              mech=nonflat_order_mech(tgt, case, c, c))


def judge_ignore(J, tgt, f, kg, rng, spec, asg, fixed, pool):
    case = J.case
    ign = case.get('ignore') or []
    if tgt.kind == 'method' and 'self' in ign and rng.random() < 0.5:
        judge_ignored_instance(J, tgt, f, kg, rng, spec, asg, fixed)
    slots, star, dstar = ignored_slots(spec, ign, tgt.kind, fixed)
    # (1) calls differing only in ignored slots
    cands = set(slots)
    if star:
        cands |= set(('var', i) for i in range(len(asg['var'])))
    if dstar:
        cands |= set(('kw', n) for n in asg['kw'])
    st = rng.getstate()
    c1 = spell(rng, spec, asg, tgt.defaults, fixed)
    m = mutate(rng, spec, asg, pool, slots=cands, fixed=fixed)
    dflt_ign = [n for n in asg['defaulted'] if (('pos', n) in slots or ('kwonly', n) in slots)]
    if dflt_ign and rng.random() < 0.5:
        # an ignored parameter left at its default in one call and passed explicitly in the other
        import copy
        n = rng.choice(dflt_ign)
        asg2 = copy.deepcopy(asg)
        asg2['defaulted'].remove(n)
        where = 'kwonly' if any(n == x[0] for x in spec['kwonly']) else 'pos'
        asg2[where][n] = rng.choice(pool)
        if where == 'pos' and asg2['var']:
            pass
        m = (asg2, (where, n))
        J.note('c11_default_vs_passed_pairs')
    if m is not None:
        asg2, slot = m
        rng.setstate(st)
        c2 = spell(rng, spec, asg2, tgt.defaults, fixed)
        rel = 'ignored-only'
    elif star or dstar:
        # presence of extra positionals / keywords is irrelevant under '*' / '**'
        import copy
        asg2 = copy.deepcopy(asg)
        if star and spec['var'] and not asg['defaulted']:
            asg2['var'] = asg['var'] + [rng.choice(pool)]
        elif dstar and spec['kw']:
            asg2['kw'] = dict(asg['kw']); asg2['kw']['w9'] = rng.choice(pool)
        else:
            asg2 = None
        if asg2 is not None:
            rng.setstate(st)
            c2 = spell(rng, spec, asg2, tgt.defaults, fixed)
            if asg2['var'] != asg['var']:
                c1 = spell_force_positional(spec, asg, tgt.defaults, fixed)
                c2 = spell_force_positional(spec, asg2, tgt.defaults, fixed)
            slot = 'extra'
            rel = 'ignored-extra'
        else:
            rel = None
    else:
        rel = None
    if rel is not None and _call_ok(tgt, *c1) is not None and _call_ok(tgt, *c2) is not None:
        ks1, e1 = _keys(J, tgt, f, kg, *c1)
        ks2, e2 = _keys(J, tgt, f, kg, *c2)
        if ks1 is not None and ks2 is not None:
            J.note('c11_ignored_pairs')
            J.nontrivial = True
            okk = True
            for which, (x, y) in (('f.key', (ks1[0], ks2[0])), ('keygen', (ks1[1], ks2[1]))):
                if not _same(x, y):
                    okk = False
                    J.bad('C11', 'ignored-argument-changed-key',
                          '%s: ignore=%r; calls %s and %s differ only in ignored %r but keys differ: %s vs %s'
                          % (which, ign, srepr(c1), srepr(c2), slot, srepr(x)[:120], srepr(y)[:120]),
                          mech=nonflat_order_mech(tgt, case, c1, c2) + dstar_passed_kwonly_mech(case['spec'], ign, c1, c2)
                          + memo_only_mech(case, x, y))
                    break
            if okk:
                try:
                    n, r = behaviour(J, tgt, case, c1, c2)
                    J.note('c11_behaviour_checks')
                    if n != 0:
                        J.bad('C11', 'ignored-argument-recomputed',
                              'ignore=%r: after %s, %s (differs only in ignored %r) was evaluated again'
                              % (ign, srepr(c1), srepr(c2), slot))
                except TypeError:
                    pass
                if gen.key_kind(case['keymap']) == 'raw' and rng.random() < 0.15 and \
                        not (tgt.kind == 'method' and 'self' not in ign):
                    # (a method whose instance is part of the key: the instance compares by identity, so a pickled
                    # copy of the key can never match - that is the user's object, not klepto)
                    # the shared entry must also be found again after it went through an archive that pickles
                    # its keys (the placeholder klepto puts in place of an ignored argument is an object)
                    try:
                        n = behaviour_archived(tgt, case, c1, c2)
                        J.note('c11_behaviour_checks_through_pickling_archive')
                        if n != 0:
                            J.bad('C11', 'ignored-argument-recomputed-after-archiving',
                                  'ignore=%r: %s was archived (file_archive) and cleared from memory; %s (differs only in '
                                  'ignored %r) was then evaluated again instead of being loaded' % (ign, srepr(c1), srepr(c2), slot))
                    except TypeError:
                        pass
    # (2) calls differing in a non-ignored slot still discriminate
    allslots = [('pos', n) for n in asg['pos']] + [('var', i) for i in range(len(asg['var']))] + \
               [('kwonly', n) for n in asg['kwonly']] + [('kw', n) for n in asg['kw']]
    free = [s for s in allslots if s not in slots and not (star and s[0] == 'var') and not (dstar and s[0] == 'kw')]
    if tgt.kind == 'method':
        pass
    m = mutate(rng, spec, asg, pool, slots=set(free), fixed=fixed) if free else None
    if m is None or not info_preserving(case):
        return
    asg3, slot3 = m
    st = rng.getstate()
    d1 = spell(rng, spec, asg, tgt.defaults, fixed)
    rng.setstate(st)
    d2 = spell(rng, spec, asg3, tgt.defaults, fixed)
    b1, b2 = _call_ok(tgt, *d1), _call_ok(tgt, *d2)
    if b1 is None or b2 is None or _same(b1, b2):
        return
    ks1, _ = _keys(J, tgt, f, kg, *d1)
    ks2, _ = _keys(J, tgt, f, kg, *d2)
    if ks1 is None or ks2 is None:
        return
    J.note('c11_discriminating_pairs')
    if _same(ks1[0], ks2[0]) or _same(ks1[1], ks2[1]):
        J.bad('C11', 'non-ignored-argument-merged',
              'ignore=%r: calls %s and %s differ in non-ignored %r but share a key %s'
              % (ign, srepr(d1), srepr(d2), slot3, srepr(ks1[0])[:120]),
              mech=kwonly_dstar_mech(spec, ign, slot3) + bare_scalar_mech(tgt, case, d1, d2))
        return
    try:
        n, r = behaviour(J, tgt, case, d1, d2)
        if n != 1:
            J.bad('C11', 'non-ignored-argument-served-from-cache',
                  'ignore=%r: after %s, the different call %s was not evaluated' % (ign, srepr(d1), srepr(d2)),
                  mech=kwonly_dstar_mech(spec, ign, slot3))
    except TypeError:
        pass


def kwonly_dstar_mech(spec, ign, slot):
    """known: ignore='**' also drops explicitly passed keyword-only *parameters*"""
    if '**' in ign and slot[0] == 'kwonly':
        return ['dstar-drops-kwonly-parameters']
    return []


def dstar_passed_kwonly_mech(spec, ign, c1, c2):
    """the same recorded defect seen from the other side: with '**' ignored, a keyword-only
    parameter that is *passed explicitly* vanishes from the key while an omitted one keeps its
    default there - so the witness is: '**' in ignore and one call spells a keyword-only
    parameter out that the other leaves to its default"""
    if '**' not in ign:
        return []
    ko = [x[0] for x in spec['kwonly']]
    if any((n in c1[1]) != (n in c2[1]) for n in ko):
        return ['dstar-drops-kwonly-parameters']
    return []


def spell_force_positional(spec, asg, defaults, fixed):
    names = [n for n in spec_names(spec)[fixed:] if n not in spec.get('_pk', ())]
    args = [asg['pos'][n] if n in asg['pos'] else defaults[n] for n in names] + list(asg['var'])
    kwds = dict(asg['kwonly']); kwds.update(asg['kw'])
    return args, kwds


# ---- C12 -------------------------------------------------------------------------------

def judge_round(J, tgt, f, kg, rng, spec, asg, fixed):
    case = J.case
    tol, deep = case.get('tol'), bool(case.get('deep'))
    pool = ROUND_SCALARS + (ROUND_NESTED if gen.key_kind(case['keymap']) not in ('raw', 'int')
                            else [v for v in ROUND_NESTED if _hashable(v)])
    hostile = [dec(h) for h in ROUND_HOSTILE] if gen.key_kind(case['keymap']) not in ('raw', 'int') else []
    asg1 = assignment(rng, spec, pool + hostile)
    # a partner that differs in one slot by a nearby / far float (or is identical)
    m = mutate(rng, spec, asg1, pool, fixed=fixed, near=True)
    if m is None:
        return
    asg2, slot = m
    st = rng.getstate()
    c1 = spell(rng, spec, asg1, tgt.defaults, fixed)
    rng.setstate(st)
    c2 = spell(rng, spec, asg2, tgt.defaults, fixed)
    b1, b2 = _call_ok(tgt, *c1), _call_ok(tgt, *c2)
    if b1 is None or b2 is None:
        J.note('oracle_dropped')
        return
    # (a) the function sees the caller's own objects; a valid call stays valid
    for c in (c1, c2):
        n0 = len(tgt.seen)
        try:
            r = tgt.call_through(f, *c)
        except TypeError as e:
            # legitimately un-keyable (unhashable for this keymap) without rounding too?
            if not keyable_without_rounding(tgt, case, c):
                J.note('c12_unkeyable_anyway')
                continue
            J.bad('C12', 'rounding-made-call-fail',
                  'tol=%r deep=%r: call %s raised %s: %s' % (tol, deep, srepr(c), type(e).__name__, str(e)[:150]),
                  mech=deep_container_mech(c, tol, deep))
            continue
        except Exception as e:
            if not keyable_without_rounding(tgt, case, c):
                J.note('c12_unkeyable_anyway')      # (e.g. a method's instance that this serializer cannot pickle)
                continue
            J.bad('C12', 'rounding-made-call-fail',
                  'tol=%r deep=%r: call %s raised %s: %s' % (tol, deep, srepr(c), type(e).__name__, str(e)[:150]),
                  mech=deep_container_mech(c, tol, deep))
            continue
        J.note('c12_receive_checks')
        if len(tgt.seen) > n0:
            got = tgt.seen[-1]
            orig = list(c[0]) + list(c[1].values())
            for o in orig:
                if not any(g is o for g in flatten_seen(got)):
                    if isinstance(o, (int, float, str, bytes, type(None), tuple, frozenset)) and \
                            any(type(g) is type(o) and g == o and repr(g) == repr(o) for g in flatten_seen(got)):
                        continue
                    J.bad('C12', 'function-received-altered-argument',
                          'tol=%r deep=%r: call %s: the function received %s, not the caller\'s %s'
                          % (tol, deep, srepr(c), srepr(got)[:200], srepr(o)))
                    break
    # (a') a one-shot iterator handed to the function must arrive unconsumed
    if tol is not None and c1[0] and rng.random() < 0.4:
        items = [1.26, 'a', 2.51]
        it = iter(items) if rng.random() < 0.5 else (x for x in items)
        ci = ([it] + list(c1[0][1:]), dict(c1[1]))
        if _call_ok(tgt, *ci) is not None:
            try:
                tgt.call_through(f, *ci)
                J.note('c12_iterator_argument_checks')
                left = list(it)
                if left != items:
                    J.bad('C12', 'function-received-altered-argument',
                          'tol=%r deep=%r: an iterator over %r passed as the first argument of %s was consumed before the '
                          'function could read it (%r left)' % (tol, deep, items, srepr(ci)[:120], left))
            except Exception:
                pass
    # (b) keys merge exactly when the oracle-rounded bindings are equal
    if not info_preserving(case):
        return
    try:
        r1 = dict((k, oracle_round(v, tol, deep)) for k, v in b1.items())
        r2 = dict((k, oracle_round(v, tol, deep)) for k, v in b2.items())
        if spec['var']:
            r1['args'] = tuple(oracle_round(v, tol, deep) for v in b1.get('args', ()))
            r2['args'] = tuple(oracle_round(v, tol, deep) for v in b2.get('args', ()))
        if spec['kw']:
            r1['kw'] = dict((k, oracle_round(v, tol, deep)) for k, v in b1.get('kw', {}).items())
            r2['kw'] = dict((k, oracle_round(v, tol, deep)) for k, v in b2.get('kw', {}).items())
    except Exception:
        J.note('oracle_dropped')
        return
    for c in (c1, c2):
        try:
            if tgt.kind == 'method':
                kg(tgt.inst, *c[0], **c[1])
            else:
                kg(*c[0], **c[1])
        except Exception:
            continue
        J.note('c12_keygen_passthrough_checks')
        try:
            ar, kw2 = kg.__args__()
            orig = list(c[0]) + list(c[1].values())
            got = list(ar) + list(kw2.values())
            if tgt.kind == 'method':
                got = got[1:]
            if len(got) != len(orig) or not all(g is o for g, o in zip(list(ar)[(1 if tgt.kind == 'method' else 0):] + [kw2[k] for k in c[1]], orig)):
                J.bad('C12', 'keygen-altered-stored-arguments',
                      'tol=%r deep=%r: klepto.keygen remembered %s for the call %s (call()/valid() would not see the '
                      'caller\'s arguments)' % (tol, deep, srepr((ar, kw2))[:160], srepr(c)[:160]))
            n0 = len(tgt.seen)
            kg.call()
            if len(tgt.seen) > n0:
                seen = tgt.seen[-1]
                if not all(any(g is o for g in flatten_seen(seen)) or isinstance(o, (int, float, str, bytes, type(None), tuple, frozenset)) and any(type(g) is type(o) and g == o and repr(g) == repr(o) for g in flatten_seen(seen)) for o in orig):
                    J.bad('C12', 'keygen-call-altered-argument',
                          'tol=%r deep=%r: keygen(...).call() passed %s for the call %s' % (tol, deep, srepr(seen)[:160], srepr(c)[:160]))
        except Exception as e:
            J.note('c12_keygen_passthrough_errors')
    want_same = _same(r1, r2) and repr(r1) == repr(r2)
    want_diff = not _same(r1, r2)
    ks1, e1 = _keys(J, tgt, f, kg, *c1)
    ks2, e2 = _keys(J, tgt, f, kg, *c2)
    if ks1 is None or ks2 is None:
        for c, ks, e in ((c1, ks1, e1), (c2, ks2, e2)):
            if ks is None and keyable_without_rounding(tgt, case, c):
                J.bad('C12', 'rounding-made-key-fail',
                      'tol=%r deep=%r: key(%s) raised %s: %s' % (tol, deep, srepr(c), type(e).__name__, str(e)[:150]),
                      mech=deep_container_mech(c, tol, deep))
        return
    J.note('c12_key_pairs')
    if want_same:
        J.note('c12_pairs_expected_merged')
    if want_diff:
        J.note('c12_pairs_expected_split')
    if tol is not None and (want_same != _same(b1, b2)):
        J.nontrivial = True
    if want_same and tol is not None and not _same(b1, b2):
        try:
            n, r = behaviour(J, tgt, case, c1, c2, own_deco=True)
            J.note('c12_behaviour_checks')
            if n != 0:
                J.bad('C12', 'rounds-equal-but-recomputed',
                      '%s tol=%r deep=%r: after %s the call %s (rounds to the same values) was evaluated again'
                      % (case['deco'], tol, deep, srepr(c1), srepr(c2)))
        except TypeError:
            pass
    for which, (x, y) in (('f.key', (ks1[0], ks2[0])), ('keygen', (ks1[1], ks2[1]))):
        if want_same and not _same(x, y):
            J.bad('C12', 'rounds-equal-but-keys-differ',
                  '%s tol=%r deep=%r: %s and %s round to the same values but keys differ: %s vs %s'
                  % (which, tol, deep, srepr(c1), srepr(c2), srepr(x)[:120], srepr(y)[:120]))
            break
        if want_diff and _same(x, y):
            J.bad('C12', 'rounds-differently-but-keys-equal',
                  '%s tol=%r deep=%r: %s and %s round differently but share key %s'
                  % (which, tol, deep, srepr(c1), srepr(c2), srepr(x)[:120]),
                  mech=bare_scalar_mech(tgt, case, c1, c2))
            break


def _hashable(v):
    try:
        hash(v)
        return True
    except TypeError:
        return False


def flatten_seen(got):
    out = []
    for g in got:
        out.append(g)
        if isinstance(g, dict):
            out.extend(g.values())
        elif isinstance(g, tuple):
            out.extend(g)
    return out


def keyable_without_rounding(tgt, case, c):
    c0 = dict(case); c0['tol'] = None
    try:
        g = tgt.decorate(make_deco(c0))
        k = tgt.key_through(g, *c)
        hash(k)
        return True
    except Exception:
        return False


def deep_container_mech(c, tol, deep):
    """known: deep rounding rebuilds every container as type(obj)(rounded items) / deep_round(**dict)
    and so raises for dicts with non-string keys and for iterables it cannot rebuild (range)"""
    if not deep or tol is None:
        return []
    def scan(o):
        if isinstance(o, dict):
            if any(not isinstance(k, str) for k in o):
                return True
            return any(scan(v) for v in o.values())
        if isinstance(o, range):
            return True
        if isinstance(o, (list, tuple, set, frozenset)):
            return any(scan(v) for v in o)
        return False
    if any(scan(v) for v in list(c[0]) + list(c[1].values())):
        return ['deep-round-cannot-rebuild-container']
    return []


# ---- standalone rounding decorators (part of C12's quantifier) ---------------------------------

def judge_standalone(J, rng):
    from klepto import rounding
    tol = rng.choice([-1, 0, 1, 2])
    pool = ROUND_SCALARS + ROUND_NESTED + [dec(h) for h in ROUND_HOSTILE[2:5]]
    args = [rng.choice(pool) for _ in range(rng.choice([1, 2, 3]))]
    kwds = dict((n, rng.choice(pool)) for n in rng.sample(['p', 'q'], rng.choice([0, 1])))
    for name, orc in (('simple_round', lambda o: oracle_round(o, tol, False)),
                      ('shallow_round', lambda o: shallow_oracle(o, tol)),
                      ('deep_round', lambda o: oracle_round(o, tol, True))):
        deco = getattr(rounding, name)(tol)
        fn = deco(lambda *a, **k: (a, k))
        want = (tuple(orc(a) for a in args), dict((k, orc(v)) for k, v in kwds.items()))
        J.note('c12_standalone_checks')
        try:
            got = fn(*args, **kwds)
        except Exception as e:
            J.bad('C12', 'standalone-rounding-raised',
                  '%s(tol=%r)(*%s, **%s) raised %s: %s' % (name, tol, srepr(args), srepr(kwds),
                                                          type(e).__name__, str(e)[:120]),
                  mech=deep_container_mech((args, kwds), tol, name == 'deep_round'))
            continue
        if not (_same(got, want) and repr(got) == repr(want)):
            mech = []
            if name == 'shallow_round' and any(isinstance(a, (str, bytes, dict, range)) for a in list(args) + list(kwds.values())):
                mech = ['shallow-round-mangles-non-sequences']
            J.bad('C12', 'standalone-rounding-wrong',
                  '%s(tol=%r) passed %s for arguments %s; expected %s'
                  % (name, tol, srepr(got)[:200], srepr((args, kwds))[:200], srepr(want)[:200]), mech=mech)


def _spec(req=(), dfl=(), var=False, kwonly=(), kw=False):
    return {'req': list(req), 'def': [list(x) for x in dfl], 'var': var,
            'kwonly': [list(x) for x in kwonly], 'kw': kw}


def _km(cls, type=None, flat=True, typed=False, sentinel=False):
    return {'cls': cls, 'type': type, 'flat': flat, 'typed': typed, 'sentinel': sentinel}


# hand-written witnesses of the recorded findings and of the anchors' mechanisms: run first on every
# shard 0, through the same judges as the generated cases (a repaired defect simply passes)
DIRECTED = {
    'C09': [({'spec': _spec(req=['a'], dfl=[['d', 2], ['e', 3]]), 'kind': 'func',
              'keymap': _km('stringmap', flat=False), 'deco': 'lru', 'safe': True},
             'equiv', ([1], {'d': 2}), ([], {'a': 1, 'd': 2}))],
    'C10': [({'spec': _spec(var=True), 'kind': 'func', 'keymap': _km('stringmap', sentinel=True),
              'deco': 'inf', 'safe': False}, 'distinct', ([1], {}), (['1'], {})),
            ],
    'C11': [({'spec': _spec(req=['a'], kwonly=[['k', True, 1]], kw=True), 'kind': 'func',
              'keymap': _km('keymap'), 'deco': 'inf', 'safe': False, 'ignore': ['**']},
             'distinct11', ([1], {'k': 1}), ([1], {'k': 2})),
            ({'spec': _spec(var=True), 'kind': 'func', 'keymap': _km('stringmap', sentinel=True),
              'deco': 'inf', 'safe': False, 'ignore': []}, 'bare', ([1], {}), (['1'], {})),
            # the recorded identity-dependence of pickled keys, reached through a decorator that was itself pickled
            ({'spec': _spec(req=['a'], dfl=[['d', 'x']]), 'kind': 'func', 'keymap': _km('picklemap', type='dill', flat=False),
              'deco': 'lru', 'safe': False, 'ignore': ['a'], 'recreate': 'pickle'},
             'ignored', ([[1]], {'d': 'a'}), ([], {'a': [2], 'd': 'a'})),
            # an ignored *extra* keyword (one that lands in **kw), present in one call and absent from the other
            ({'spec': _spec(req=['a'], kw=True), 'kind': 'func', 'keymap': _km('keymap'), 'deco': 'inf', 'safe': False,
              'ignore': ['p']}, 'ignored', ([1], {}), ([1], {'p': 5}))],
    'C12': [({'spec': _spec(req=['a']), 'kind': 'func', 'keymap': _km('stringmap'), 'deco': 'inf',
              'safe': False, 'tol': 1, 'deep': True}, 'round', ([{'__d__': [[1, 1.26]]}], {}), ([{'__d__': [[1, 1.24]]}], {})),
            ({'spec': _spec(req=['a']), 'kind': 'func', 'keymap': _km('stringmap'), 'deco': 'inf',
              'safe': False, 'tol': 1, 'deep': True}, 'round', ([{'__r__': [0, 3, 1]}], {}), ([{'__r__': [0, 3, 1]}], {})),
            ({'spec': _spec(var=True), 'kind': 'func', 'keymap': _km('stringmap', sentinel=True),
              'deco': 'inf', 'safe': False, 'tol': 1, 'deep': False}, 'bare', ([1], {}), (['1'], {}))],
}


def big_pairs():
    """arguments whose printed / pickled form is longer than any block or buffer size a keymap might process it in
    (2**16, 2**20 bytes) and which differ only at the very end, or only in the middle"""
    out = []
    spec = _spec(req=['a'], dfl=[['d', 2]])
    for n in ((1 << 20) + 3, (1 << 16) + 3):
        big = 'k' * n
        for km in (_km('hashmap', type='md5'), _km('hashmap', type='sha256', flat=False), _km('hashmap', type='sha1', typed=True),
                   _km('stringmap'), _km('stringmap', type='repr', flat=False), _km('picklemap', type='pickle'),
                   _km('picklemap', type='dill', typed=True), _km('picklemap'), _km('keymap')):
            case = {'spec': spec, 'kind': 'func', 'keymap': km, 'deco': 'lru', 'safe': False}
            out.append((case, 'distinct', ([big + 'a'], {}), ([big + 'b'], {})))
            out.append((case, 'distinct', ([(1, big, 2)], {'d': 3}), ([(1, big, 2)], {'d': 4})))
    return out


def extra_presence_mech(case, c1, c2):
    """witness-derived: the two calls differ in that one passes an ignored keyword which is not a named parameter (it lands
    in **kw) and the other does not pass it at all: klepto masks the value of such a keyword but keeps its name in the key"""
    named = set(spec_names(case['spec'])) | set(x[0] for x in case['spec']['kwonly'])
    diff = set(c1[1]) ^ set(c2[1])
    if diff and diff <= set(case.get('ignore') or []) and not (diff & named) and list(c1[0]) == list(c2[0]):
        return ['ignored-extra-keyword-presence']
    return []


def run_directed(prop):
    out = []
    for case, rel, c1, c2 in DIRECTED.get(prop, []) + (big_pairs() if prop == 'C10' else []):
        case = dict(case); case['prop'] = prop; case['seed'] = 0; case['directed'] = True
        J = Judge(case)
        tgt = Target(case['spec'], case['kind'], case.get('partial'))
        f = tgt.decorate(make_deco(case))
        kg = make_keygen(case)(tgt.plain)
        c1 = (dec(c1[0]), dec(c1[1])); c2 = (dec(c2[0]), dec(c2[1]))
        if rel == 'equiv':
            check_equiv(J, tgt, f, kg, c1, c2)
        elif rel in ('distinct', 'typed'):
            check_distinct(J, tgt, f, kg, c1, c2, 'directed', rel == 'typed')
        elif rel == 'distinct11':
            ks1, _ = _keys(J, tgt, f, kg, *c1)
            ks2, _ = _keys(J, tgt, f, kg, *c2)
            J.note('c11_discriminating_pairs')
            if ks1 is not None and ks2 is not None and _same(ks1[0], ks2[0]):
                J.bad('C11', 'non-ignored-argument-merged',
                      'ignore=%r: calls %s and %s differ in non-ignored keyword-only k but share a key %s'
                      % (case['ignore'], srepr(c1), srepr(c2), srepr(ks1[0])[:100]),
                      mech=kwonly_dstar_mech(case['spec'], case['ignore'], ('kwonly', 'k')))
        elif rel == 'ignored':
            ks1, _ = _keys(J, tgt, f, kg, *c1)
            ks2, _ = _keys(J, tgt, f, kg, *c2)
            J.note('c11_ignored_pairs')
            if ks1 is not None and ks2 is not None and not _same(ks1[0], ks2[0]):
                J.bad('C11', 'ignored-argument-changed-key', 'f.key: ignore=%r; calls %s and %s differ only in ignored a but '
                      'keys differ: %s vs %s' % (case['ignore'], srepr(c1), srepr(c2), srepr(ks1[0])[:120], srepr(ks2[0])[:120]),
                      mech=memo_only_mech(case, ks1[0], ks2[0]) + extra_presence_mech(case, c1, c2))
        elif rel == 'bare':
            # the recorded str(1) == str('1') collision of flat stringmap(encoding=None), seen from this property
            ks1, _ = _keys(J, tgt, f, kg, *c1)
            ks2, _ = _keys(J, tgt, f, kg, *c2)
            if ks1 is not None and ks2 is not None and _same(ks1[0], ks2[0]):
                if prop == 'C11':
                    J.note('c11_discriminating_pairs')
                    J.bad('C11', 'non-ignored-argument-merged', 'ignore=[]: calls %s and %s differ in a non-ignored argument '
                          'but share a key %s' % (srepr(c1), srepr(c2), srepr(ks1[0])[:100]), mech=bare_scalar_mech(tgt, case, c1, c2))
                else:
                    J.bad('C12', 'rounds-differently-but-keys-equal', 'f.key tol=%r: %s and %s round differently but share key %s'
                          % (case.get('tol'), srepr(c1), srepr(c2), srepr(ks1[0])[:100]), mech=bare_scalar_mech(tgt, case, c1, c2))
        elif rel == 'round':
            for c in (c1, c2):
                try:
                    tgt.call_through(f, *c)
                    J.note('c12_receive_checks')
                except Exception as e:
                    J.bad('C12', 'rounding-made-call-fail',
                          'tol=%r deep=%r: call %s raised %s: %s' % (case['tol'], case['deep'], srepr(c),
                                                                   type(e).__name__, str(e)[:150]),
                          mech=deep_container_mech(c, case['tol'], case['deep']))
        J.note('directed_cases')
        out.append(J)
    if prop == 'C12':
        from klepto import rounding
        J = Judge({'directed': True, 'prop': 'C12', 'what': "shallow_round(1)('abc', 1.26)"})
        got = rounding.shallow_round(1)(lambda *a, **k: (a, k))('abc', 1.26)
        J.note('c12_standalone_checks')
        if got != (('abc', 1.3), {}):
            J.bad('C12', 'standalone-rounding-wrong', "shallow_round(tol=1) passed %r for ('abc', 1.26)" % (got,),
                  mech=['shallow-round-mangles-non-sequences'])
        out.append(J)
    return out


RULES = {
    'C09': 'generated callable x keymap cell in which >=1 pair of *differently spelled* identically-binding calls was keyed and called',
    'C10': 'generated callable x information-preserving keymap cell in which >=1 pair of calls binding unequal values (or ==-equal values of different type under typed=True) was keyed',
    'C11': 'generated callable x ignore-specification cell in which >=1 pair differing only in ignored slots was keyed and called',
    'C12': 'generated callable x tolerance cell in which >=1 pair whose equality changes under rounding was keyed',
}


def run_shard(prop, tier, seed, shard, nshards, opts):
    n_total = opts.get('cases', 4000)
    budget = opts.get('budget_s', 60)
    t0 = time.time()
    res = {'cases': 0, 'digests': [], 'counters': {}, 'samples': [], 'violations': [],
           'cells': {}, 'anchors': {}, 'notes': []}
    from kv import reach
    mon = reach.Reach()
    mon.start()
    if shard == 0:
        for J in run_directed(prop):
            res['cases'] += 1
            for k, v in J.cnt.items():
                res['counters'][k] = res['counters'].get(k, 0) + v
            res['violations'].extend(J.viol)
    i = shard
    while i < n_total and time.time() - t0 < budget:
        rng = gen.make_rng('keymon', prop, seed, i)
        case = gen_case(rng, prop)
        J = run_case(case, prop)
        if prop == 'C12' and i % 3 == 0:
            judge_standalone(J, rng)
        res['cases'] += 1
        for k, v in J.cnt.items():
            res['counters'][k] = res['counters'].get(k, 0) + v
        km = case['keymap']
        cell = '%s/%s%s%s/%s' % (case['kind'], km['cls'], '' if km['flat'] else '-nonflat',
                                 '-typed' if km['typed'] else '', km['type'])
        res['cells'][cell] = res['cells'].get(cell, 0) + 1
        if getattr(J, 'nontrivial', False):
            res['digests'].append(digest(case))
            if len(res['samples']) < 2:
                res['samples'].append(sample_info(case))
        for v in J.viol:
            if len(res['violations']) < 300:
                res['violations'].append(v)
        i += nshards
    mon.stop()
    res['anchors'] = mon.anchors()
    res['counters']['decorators_recreated_before_use'] = RECREATED[0]
    return res


def replay(v, prop):
    if v['case'].get('directed'):
        return [x for J in run_directed(prop) for x in J.viol if x['property'] == prop]
    J = run_case(v['case'], prop)
    return [x for x in J.viol if x['property'] == prop]
