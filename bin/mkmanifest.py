import json
claimed = json.load(open('/verif/checks.json'))
props = [json.loads(l) for l in open('/verif/properties.jsonl')]
checks = []
for p in props:
    c = claimed.get(p['id'])
    if not c: continue
    checks.append({
        'property_id': p['id'],
        'quick_cmd': './bin/check %s --tier quick' % p['id'],
        'thorough_cmd': './bin/check %s --tier thorough' % p['id'],
        'evidence_file': 'evidence/%s.json' % p['id'],
        'replay_cmd_template': './bin/check %s --replay {path}' % p['id'],
        'engine': c['engine'],
        'level_claimed': {'category': c.get('level', 'exploration'), 'text': c['text'], 'design_ref': c['ref']},
        'level_note': c['note'],
        'technique': c['technique'],
    })
na = [{'property_id': p['id'], 'reason': 'check not built yet (work in progress; the design in DESIGN.md section 3 applies)'}
      for p in props if p['id'] not in claimed]
m = {
    'version': 1,
    'setup_cmd': './bin/setup',
    'hooks': {'guard': 'KLEPTO_VERIF', 'enable': 'no hooks are compiled into klepto: every monitor attaches from the harness (cache= subclass, LD_PRELOAD shim, sys.monitoring); the guard name is reserved and unused',
              'baseline_off_cmd': 'cd /repo && /venv/bin/python -m pytest -ra -q -p no:cacheprovider --timeout=900 --continue-on-collection-errors',
              'source_commits': [], 'add_only': True},
    'engines': json.load(open('/verif/engines.json')),
    'checks': checks,
    'notes': 'Runtime monitoring only. Genuine defects repaired in /repo as fix: commits and open findings are listed in known_findings.jsonl; see DESIGN.md.',
    'not_applicable': na,
}
json.dump(m, open('/verif/MANIFEST.json', 'w'), indent=1)
print(len(checks), 'checks;', len(na), 'not claimed')
