#!/usr/bin/env python3
"""import confirmed sub-agent seeds: bin/import_seeds.py <confirm.log> ; copies from /tmp/wt_<P>/seed into /verif/seeded/<P>-<k>/"""
import json, os, re, shutil, sys
for line in open(sys.argv[1]):
    m = re.match(r'RESULT (/tmp/w[t23456789]_(\w+)) (\d+) demo_clean=(\d+) demo_patched=(\d+) tests: (.*)', line.strip())
    if not m: continue
    wt, tag, k, dc, dp, tests = m.groups()
    src_k = k
    if '/w2_' in wt: k = str(int(k) + 2)   # second-round seeds are numbered 3 and 4
    if '/w3_' in wt: k = str(int(k) + 4)   # third-round seeds are numbered 5 and 6
    if '/w4_' in wt: k = str(int(k) + 6)   # fourth-round seeds are numbered 7 and 8
    if '/w5_' in wt: k = str(int(k) + 8)   # fifth-round seeds are numbered 9 and 10
    if '/w6_' in wt: k = str(int(k) + 10)  # sixth-round seeds are numbered 11 and 12
    if '/w7_' in wt: k = str(int(k) + 12)  # seventh-round seeds are numbered 13 and 14
    if '/w8_' in wt: k = str(int(k) + 14)  # eighth-round seeds are numbered 15 and 16
    if '/w9_' in wt: k = str(int(k) + 16)  # ninth-round seeds are numbered 17 and 18
    prop = tag.split('_')[0]
    ok = dc == '0' and dp != '0' and '46 passed' in tests
    dst = '/verif/seeded/%s-%s' % (tag, k)
    if not ok:
        print('NOT confirmed', tag, k, line.strip()); continue
    os.makedirs(dst, exist_ok=True)
    shutil.copy('%s/seed/patch%s.diff' % (wt, src_k), dst + '/patch.diff')
    shutil.copy('%s/seed/demo%s.py' % (wt, src_k), dst + '/demo.py')
    try: meta = json.load(open('%s/seed/meta%s.json' % (wt, src_k)))
    except Exception: meta = {}
    old = {}
    if os.path.exists(dst + '/meta.json'):
        old = json.load(open(dst + '/meta.json'))
    meta['property'] = meta.get('property', prop)
    meta['confirmed_by_me'] = {'worktree': wt, 'demo_exit_clean_tree': int(dc), 'demo_exit_with_patch': int(dp),
                               'baseline_tests_with_patch': tests,
                               'cmd': 'bin/confirm_seed %s %s' % (wt, src_k)}
    if 'checks' in old: meta['checks'] = old['checks']
    json.dump(meta, open(dst + '/meta.json', 'w'), indent=1)
    print('imported', dst)
